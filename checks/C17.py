"""C17 - generated bin-packing instances keep the template's size and bin need."""
from __future__ import annotations

import math

import numpy as np

from vlib.monitors.decode_tracer import DecodeBudgetExceeded, DecodeTracer
from vlib.oracles import packing as po
from vlib.workloads import binpack as wb

PID = "C17"
RULE = ("templates: shipped (a*, beng*, small cl*) and synthetic small ones "
        "(2-5 bins, 3-20 items); vectors of every admissible length "
        "2(n-lb)+2k, k in {0,1,2,5,20}: uniform, all of one of {-1, "
        "nextafter(-1), -0.5, -0.0, 0, 0.5, nextafter(1), 1}, mixtures, "
        "adversarial slack (+-nextafter(1) cutters aimed at large items). "
        "Every InstanceDecoder.decode call is wrapped: a state-diff tracer "
        "(sys.monitoring LINE events on the one code object) classifies each "
        "change of the local item list as split / shrink and maintains a "
        "geometric witness layout in min_bins bins. Postconditions: name, "
        "bin size, n_items, every item fits, total area >= (min_bins-1)*A+1, "
        "lower_bound_bins == min_bins, witness layout feasible (independent "
        "oracle) with the instance's item multiset; decoding twice gives the "
        "same compact string. Errors/Hardness/ErrorsAndHardness in [0,1], "
        "Errors(template) == 0, Hardness equal on repeated evaluation and on "
        "a fresh object. non-trivial = distinct (template, vector) with >= 1 "
        "slack cut that actually cut, or an extreme-value vector")
LEVEL_ASSUMPTIONS = [
    "witness layouts are reconstructed from observed state changes of the "
    "real decode() and judged by vlib/oracles/packing.py; when the tracer "
    "cannot classify a change the packability clause is inconclusive for "
    "that call (exhaustive packer for <= 7 items instead)"]
REQUIRED = {"template[synthetic-unit-filled]": 10,
            "template[synthetic-thin]": 10, "decodes_judged": 500,
            "witness_layouts_judged": 400,
            "hardness_evaluations": 10, "fresh_process_references": 4,
            "hardness_iterable_executors": 6, "hardness_on_a_slow_machine": 4,
            "short_lived_instances_rated_by_one_objective": 20,
            "decodes_from_a_reused_point_buffer": 50,
            "hardness_sibling_histories": 2, "errors_of_template_zero": 5,
            "extreme_value_vectors": 100}

class StopShard(Exception):
    """Two decodes without bounded progress: no point in continuing."""


TRACER: DecodeTracer | None = None
DECODERS: dict = {}
STATE = {"ctx": None, "case": None, "last": None}

SHIPPED = ("a01", "a04", "a08", "a10", "a20", "beng01", "beng02", "beng05",
           "beng08", "cl01_020_01", "cl02_020_01", "cl03_020_03",
           "cl05_020_01", "cl07_020_02", "cl09_020_01", "cl01_040_01",
           "cl04_020_01", "cl06_020_01", "cl08_040_02", "cl10_020_04")


def plan(tier: str, seed: int):
    if tier == "quick":
        return [{"name": f"s{i}", "engine": "jit",
                 "args": {"n": 110, "hard": 3}, "timeout": 1500}
                for i in range(4)]
    return [{"name": f"s{i}", "engine": "jit",
             "args": {"n": 3000, "hard": 30}, "timeout": 3400}
            for i in range(16)]


def install(ctx):
    """Wrap InstanceDecoder.decode with tracer + postconditions."""
    global TRACER
    from moptipyapps.binpacking2d.instgen.inst_decoding import InstanceDecoder
    STATE["ctx"] = ctx
    if TRACER is not None:
        return
    orig = InstanceDecoder.decode
    import moptipyapps.binpacking2d.instgen.inst_decoding as idm
    TRACER = DecodeTracer(orig.__code__, idm)
    ok = TRACER.install()
    if not ok:
        ctx.note("sys.monitoring tracer not available")

    def decode(self, x, y):
        c = STATE["ctx"]
        sp = self.space
        tr = TRACER.begin(sp.bin_width, sp.bin_height, sp.min_bins) \
            if TRACER.installed else None
        try:
            orig(self, x, y)
        except DecodeBudgetExceeded as e:
            c.violation(
                "decode-no-bounded-progress",
                f"{e} without returning (normal calls need < 10^5)",
                STATE["case"] or {"kind": "vector", "template": None,
                                  "x": [float(v) for v in x]})
            raise
        finally:
            if tr is not None:
                TRACER.end()
        judge_decode(c, sp, x, y, tr)

    InstanceDecoder._verif_orig_decode = orig    # for lifetime-sensitive use
    InstanceDecoder.decode = decode


def judge_decode(ctx, sp, x, y, tr):
    from moptipyapps.binpacking2d.instance import Instance
    case = STATE["case"] or {"kind": "vector", "template": None,
                             "x": [float(v) for v in x]}
    ctx.count("decodes_judged")
    if len(y) != 1 or not isinstance(y[0], Instance):
        ctx.violation("decode-result-not-one-instance", repr(y)[:100], case)
        return
    inst = y[0]
    STATE["last"] = inst
    A = sp.bin_width * sp.bin_height
    desc = wb.desc_of(inst, "generated")
    tname = STATE.get("template_name")
    if inst.name != sp.inst_name or (tname is not None and (
            inst.name == tname or not inst.name.startswith(tname))):
        # "the template's (suffixed) name": the template's name plus a
        # non-empty suffix, judged against the TEMPLATE, not against what
        # the space says the name should be
        ctx.violation("generated-name",
                      f"generated instance is called {inst.name!r}; the "
                      f"template is {tname!r}, the space announces "
                      f"{sp.inst_name!r}", case)
    tm = STATE.get("template")
    if tm is not None and (sp.bin_width != tm.bin_width
                           or sp.bin_height != tm.bin_height
                           or sp.n_items != tm.n_items
                           or sp.min_bins != min(tm.lower_bound_bins,
                                                 tm.n_items)):
        # what the space announces must be the template's own data
        ctx.violation("space-differs-from-template",
                      f"space: {sp.bin_width}x{sp.bin_height}, "
                      f"{sp.n_items} items, {sp.min_bins} bins; template: "
                      f"{tm.bin_width}x{tm.bin_height}, {tm.n_items} items, "
                      f"lower bound {tm.lower_bound_bins}", case)
    if inst.bin_width != sp.bin_width or inst.bin_height != sp.bin_height:
        ctx.violation("generated-bin-size", "bin size differs", case)
    if inst.n_items != sp.n_items:
        ctx.violation("generated-n-items",
                      f"n_items {inst.n_items} != template {sp.n_items}",
                      case)
        return
    for w, h, r in desc["items"]:
        if w < 1 or h < 1 or r < 1 or w > sp.bin_width or h > sp.bin_height:
            ctx.violation("generated-item-does-not-fit",
                          f"item {w}x{h}x{r} in bin {sp.bin_width}x"
                          f"{sp.bin_height}", case)
            return
    area = sum(w * h * r for w, h, r in desc["items"])
    need = (sp.min_bins - 1) * A + 1
    ctx.seen_min("min_area_margin", area - need)
    if area < need:
        ctx.violation(
            "generated-area-below-bin-need",
            f"total item area {area} < (min_bins-1)*A+1 = {need} "
            f"(min_bins={sp.min_bins}, A={A}): the instance needs fewer "
            f"bins than the template", case)
    if area > sp.min_bins * A:
        ctx.violation("generated-area-above-bins", f"area {area}", case)
    if inst.lower_bound_bins != sp.min_bins:
        ctx.violation("generated-lower-bound-differs",
                      f"lower_bound_bins={inst.lower_bound_bins}, template "
                      f"min_bins={sp.min_bins}", case)
    # packability in exactly min_bins bins: the witness layout
    judged = False
    if tr is not None:
        ctx.count("tracer_lines", tr.events["lines"])
        ctx.seen_max("max_lines_per_decode", tr.total_lines)
        ctx.count("tracer_splits", tr.events["split"])
        ctx.count("tracer_shrinks", tr.events["shrink"])
        if tr.state == "ended":
            ids = {}
            for i, (w, h, _r) in enumerate(desc["items"], 1):
                ids[(w, h)] = i
            rows = []
            ok = True
            for (b, le, bo, ri, to) in tr.rects():
                iid = ids.get((ri - le, to - bo))
                if iid is None:
                    ok = False
                    break
                rows.append([iid, b, le, bo, ri, to])
            why = po.infeasibility(desc, rows, sp.min_bins) if ok else \
                "a traced rectangle has no item of its size in the instance"
            ctx.count("witness_layouts_judged")
            judged = True
            if tr.events["split"] != sp.n_items - sp.min_bins:
                # how the items come about is not part of the property
                ctx.count("split_count_differs_from_n_items_minus_min_bins")
            if why is not None:
                ctx.violation("generated-instance-witness-layout-infeasible",
                              "the layout reconstructed from the decoder's "
                              f"own cuts is not a packing of the instance in "
                              f"{sp.min_bins} bins: {why}", case)
        else:
            ctx.count(f"tracer_{tr.state}")
            ctx.note(f"tracer {tr.state}: {tr.why_lost}")
    if not judged:
        # black box: any packing an independent bottom-left model finds in
        # min_bins bins is a witness; finding none decides nothing
        found = heuristic_witness(ctx, desc, sp.min_bins)
        if found:
            ctx.count("witness_layouts_judged")
            ctx.count("witness_by_heuristic_packing")
            judged = True
        else:
            ctx.count("witness_undecided")
    if not judged and inst.n_items <= 7:
        rects = []
        for w, h, r in desc["items"]:
            rects.extend([(w, h)] * r)
        k = po.min_bins_exhaustive(sp.bin_width, sp.bin_height, rects,
                                   200_000)
        if k is not None:
            ctx.count("packability_by_exhaustive_packer")
            if k > sp.min_bins:
                ctx.violation("generated-instance-not-packable-in-min-bins",
                              f"own search needs {k} bins", case)
    if tr is not None and tr.events["shrink"] > 0:
        ctx.nontrivial(case.get("template"), case.get("x"))


def heuristic_witness(ctx, desc, k) -> bool:
    from vlib.oracles import ibl
    seq = wb.base_sequence(desc)
    items = desc["items"]
    keys = [lambda i: -items[i - 1][0] * items[i - 1][1],
            lambda i: -items[i - 1][1], lambda i: -items[i - 1][0],
            lambda i: -max(items[i - 1][:2])]
    rng = np.random.default_rng(len(seq))
    for t in range(24):
        if t < len(keys):
            perm = sorted(seq, key=keys[t])
        else:
            perm = [int(v) for v in rng.permutation(seq)]
        for ff in (True, False):
            try:
                rows, nb, _ = ibl.decode(desc["W"], desc["H"], items, perm,
                                         first_fit=ff)
            except Exception:  # noqa: BLE001
                return False
            if nb <= k and po.infeasibility(desc, rows, k) is None:
                return True
    return False


EXTREMES = [-1.0, float(np.nextafter(-1.0, 0.0)), -0.5, -0.0, 0.0, 0.5,
            float(np.nextafter(1.0, 0.0)), 1.0]


def gen_vector(rng, dim, base_dim):
    kind = int(rng.integers(7))
    if kind == 0:
        return rng.uniform(-1.0, 1.0, dim), "uniform"
    if kind == 1:
        return np.full(dim, float(rng.choice(EXTREMES))), "constant-extreme"
    if kind == 2:
        return rng.choice(EXTREMES, dim).astype(float), "mixed-extremes"
    if kind == 3:
        v = rng.uniform(-1.0, 1.0, dim)
        # adversarial slack: cutters at +-nextafter(1), selectors spread
        for i in range(base_dim, dim, 2):
            v[i] = float(rng.uniform(-1, 1))
            v[i + 1] = float(rng.choice([EXTREMES[1], EXTREMES[6], 1.0,
                                         -1.0]))
        return v, "adversarial-slack"
    if kind == 4:
        v = rng.uniform(-1.0, 1.0, dim)
        m = rng.integers(0, 2, dim).astype(bool)
        v[m] = rng.choice(EXTREMES, int(m.sum()))
        return v, "half-extreme"
    if kind == 5:
        v = rng.uniform(-0.05, 0.05, dim)
        return v, "near-zero"
    v = rng.uniform(-1.0, 1.0, dim)
    for i in range(base_dim, dim, 2):
        v[i + 1] = float(rng.uniform(0.9, 1.0) * rng.choice([-1, 1]))
    return v, "big-slack-cuts"


def synthetic_template(rng):
    kind = int(rng.integers(5))
    if kind == 0:
        # bins completely filled by unit items: every split needs the
        # wrap-around of the item search and the switch of the direction
        W = int(rng.integers(1, 5))
        H = int(rng.integers(1, 5))
        if W * H == 1:
            W = 2
        k = int(rng.integers(1, 4))
        return {"name": wb._name(rng), "W": W, "H": H,
                "items": [[1, 1, W * H * k]], "cls": "synthetic-unit-filled"}
    if kind == 1:
        # 1-wide / 1-high bins, unit and short items
        L = int(rng.integers(2, 9))
        W, H = (1, L) if rng.integers(2) else (L, 1)
        items = [[1, 1, int(rng.integers(2, 2 * L + 1))]]
        if rng.integers(2):
            ln = int(rng.integers(2, L + 1))
            items.append([ln, 1, 1] if W > 1 else [1, ln, 1])
        return {"name": wb._name(rng), "W": W, "H": H, "items": items,
                "cls": "synthetic-thin"}
    W = int(rng.integers(3, 40))
    H = int(rng.integers(3, 40))
    k = int(rng.integers(1, 6))
    items = []
    for _ in range(k):
        items.append([int(rng.integers(1, W + 1)), int(rng.integers(1, H + 1)),
                      int(rng.integers(1, 5))])
    return {"name": wb._name(rng), "W": W, "H": H, "items": items,
            "cls": "synthetic"}


def get_template(rng, tcase):
    from moptipyapps.binpacking2d.instance import Instance
    if isinstance(tcase, str):
        return Instance.from_resource(tcase)
    if "name_suffix" not in tcase:
        # a template may itself be a generated instance ("a04n") or simply
        # be called like one
        tcase["name_suffix"] = str(rng.choice(["", "", "n", "7n", "_n",
                                               "nn"]))
        tcase["name"] = tcase["name"] + tcase["name_suffix"]
    return wb.make_real(tcase)


def one(ctx, tcase, k, x=None, tag=None):
    from moptipyapps.binpacking2d.instgen.errors import Errors
    from moptipyapps.binpacking2d.instgen.inst_decoding import InstanceDecoder
    from moptipyapps.binpacking2d.instgen.instance_space import InstanceSpace
    install(ctx)
    rng = ctx.rng
    templ = get_template(rng, tcase)
    STATE["template_name"] = str(templ.name)
    STATE["template"] = templ
    try:
        sp = InstanceSpace(templ)
    except ValueError:
        ctx.count("template_rejected_by_instance_space")
        return None
    if sp.n_items - sp.min_bins < 1:
        ctx.count("template_without_split")
        return None
    dec = InstanceDecoder(sp)
    base_dim = 2 * (sp.n_items - sp.min_bins)
    dim = base_dim + 2 * k
    # the decoder's own statement of an admissible length (what the bundled
    # Problem class uses): two values per split plus two per slack cut
    for slack in (0, 0.0, float(rng.choice([0.1, 0.5, 1.0, 2.5])),
                  int(rng.integers(1, 4))):
        d = dec.get_x_dim(slack)
        ctx.count("get_x_dim_calls")
        # (how much a given slack adds is the decoder's business; only
        # admissibility and "no slack = the minimum" are judged)
        if type(d) is not int or d < base_dim or d % 2 or (
                slack == 0 and d != base_dim):
            ctx.violation("get-x-dim-not-admissible",
                          f"get_x_dim({slack!r}) = {d!r} for {base_dim // 2} "
                          f"splits", {"kind": "vector", "template": tcase,
                                      "k": k, "x": None, "tag": "xdim"})
            break
    if x is None and rng.integers(4) == 0:
        dim = dec.get_x_dim(float(rng.choice([0.0, 0.2, 0.5])))
        k = (dim - base_dim) // 2
    if x is None:
        x, tag = gen_vector(rng, dim, base_dim)
    else:
        x = np.array(x, float)
    if tag != "uniform":
        ctx.count("extreme_value_vectors")
    ctx.count(f"vector[{tag}]")
    ctx.count(f"slack_pairs[{k}]")
    ctx.count("template[" + (tcase if isinstance(tcase, str)
                             else tcase.get("cls", "?"))[:24] + "]")
    STATE["case"] = {"kind": "vector", "template": tcase, "k": k,
                     "x": [float(v) for v in x], "tag": tag}
    ctx.case()
    y: list = []
    # optimisers overwrite their point buffers in place: the decoder sees
    # the same array object again with other contents (one buffer per
    # length for the whole shard), and a long-lived decoder per template
    if isinstance(tcase, str):
        dkey = (tcase, len(x))
        if dkey not in DECODERS:
            DECODERS[dkey] = (dec, np.empty(len(x)))
        dec, buf = DECODERS[dkey]
        buf[:] = x
        x_in = buf
        ctx.count("decodes_from_a_reused_point_buffer")
    else:
        x_in = x
    try:
        dec.decode(x_in, y)           # wrapped: tracer + postconditions
    except DecodeBudgetExceeded:
        STATE["case"] = None
        STATE["hung"] = STATE.get("hung", 0) + 1
        if STATE["hung"] >= 2:
            raise StopShard from None
        return None
    first = y[0].to_compact_str()
    if tag != "uniform":
        ctx.nontrivial(STATE["case"]["template"], STATE["case"]["x"])
    # decoding the same vector again (same object, dirty destination)
    dec.decode(x.copy(), y)
    if y[0].to_compact_str() != first:
        ctx.violation("decode-not-deterministic",
                      "decoding the same vector twice gives different "
                      "instances", STATE["case"])
    y2: list = []
    InstanceDecoder(InstanceSpace(templ)).decode(x.copy(), y2)
    if y2[0].to_compact_str() != first:
        ctx.violation("decode-not-deterministic",
                      "a fresh decoder gives a different instance",
                      STATE["case"])
    inst = y[0]
    # similarity objective
    e = Errors(sp)
    v = e.evaluate(y)
    ctx.count("errors_evaluations")
    if not (isinstance(v, float) and 0.0 <= v <= 1.0):
        ctx.violation("errors-objective-outside-0-1", repr(v), STATE["case"])
    vt = e.evaluate(templ)
    if vt != 0:
        ctx.violation("errors-of-template-nonzero",
                      f"Errors(template) = {vt!r}", STATE["case"])
    else:
        ctx.count("errors_of_template_zero")
    STATE["case"] = None
    return sp, inst, x


def fresh_process_hardness(inst, fes, runs):
    import subprocess
    import sys
    code = ("import sys\n"
            "from moptipyapps.binpacking2d.instance import Instance\n"
            "from moptipyapps.binpacking2d.instgen.hardness import Hardness\n"
            "i = Instance.from_compact_str(sys.argv[1])\n"
            "print('HARDNESS', repr(Hardness(int(sys.argv[2]), "
            "int(sys.argv[3])).evaluate(i)))\n")
    try:
        p = subprocess.run([sys.executable, "-c", code,
                            inst.to_compact_str(), str(fes), str(runs)],
                           capture_output=True, text=True, timeout=600)
    except subprocess.TimeoutExpired:
        return None
    for ln in p.stdout.splitlines():
        if ln.startswith("HARDNESS "):
            return float(ln.split(" ", 1)[1])
    return None


def hardness(ctx, tcase):
    from moptipyapps.binpacking2d.instgen.errors_and_hardness import (
        ErrorsAndHardness,
    )
    from moptipyapps.binpacking2d.instgen.hardness import Hardness
    rng = ctx.rng
    res = one(ctx, tcase, int(rng.choice([0, 1, 2])))
    if res is None:
        return
    sp, inst, x = res
    fes = int(rng.integers(2, 51))
    runs = int(rng.integers(1, 3))
    case = {"kind": "hardness", "template": tcase,
            "x": [float(v) for v in x], "fes": fes, "runs": runs}
    # history: an objective configured differently has evaluated another
    # instance of the same name (every instance generated from one template
    # carries the template's suffixed name) before
    if rng.integers(2):
        other = one(ctx, tcase, int(rng.choice([0, 1, 2])))
        if other is not None:
            oruns = runs + int(rng.choice([1, 2]))
            Hardness(int(rng.integers(2, 51)), oruns).evaluate(other[1])
            ctx.count("hardness_sibling_histories")
            case["sibling"] = {"x": [float(v) for v in other[2]],
                               "runs": oruns}
    h = Hardness(fes, runs)
    STATE["case"] = None
    ctx.case()
    v1 = h.evaluate([inst])
    v2 = h.evaluate(inst)
    # ... and on a machine a million times slower (the inner runs are
    # budgeted in evaluations)
    from vlib.monitors.clockwarp import slow_machine
    with slow_machine() as seen:
        v3 = Hardness(fes, runs).evaluate([inst])
    ctx.count("hardness_on_a_slow_machine")
    ctx.count("wall_clock_limits_seen_in_inner_runs", seen.timers)
    ctx.count("hardness_evaluations", 3)
    for v in (v1, v2, v3):
        if not (isinstance(v, float) and 0.0 <= v <= 1.0
                and math.isfinite(v)):
            ctx.violation("hardness-outside-0-1", repr(v), case)
    if not (v1 == v2 == v3):
        ctx.violation("hardness-not-repeatable",
                      f"same instance: {v1!r}, {v2!r}, fresh object {v3!r}",
                      case)
    # the history-free reference: the same configuration as the first thing
    # a fresh interpreter does
    if STATE.get("fresh_refs", 0) < 3:
        STATE["fresh_refs"] = STATE.get("fresh_refs", 0) + 1
        vf = fresh_process_hardness(inst, fes, runs)
        if vf is None:
            ctx.count("fresh_process_reference_failed")
        else:
            ctx.count("fresh_process_references")
            if vf != v1:
                ctx.violation(
                    "hardness-depends-on-process-history",
                    f"Hardness({fes}, {runs}) = {v1!r} in this process, "
                    f"{vf!r} as the first evaluation of a fresh process",
                    case)
    # the set-ups handed over as a one-shot iterable and as a list the
    # caller goes on using: `executors` is declared an Iterable
    from moptipyapps.binpacking2d.instgen.hardness import DEFAULT_EXECUTORS
    sub = [DEFAULT_EXECUTORS[int(i)] for i in rng.permutation(
        len(DEFAULT_EXECUTORS))[:int(rng.integers(1, 4))]]
    ref = Hardness(fes, runs, tuple(sub)).evaluate(inst)
    mine = list(sub)
    for how, hx in (("generator", Hardness(fes, runs, (e for e in sub))),
                    ("list", Hardness(fes, runs, mine))):
        if how == "list":
            mine.reverse()
            mine.append(DEFAULT_EXECUTORS[0])
        try:
            g1 = hx.evaluate(inst)
            g2 = hx.evaluate([inst])
        except ZeroDivisionError as e:
            g1 = g2 = f"raised {e!r}"
        ctx.count("hardness_iterable_executors")
        if not (g1 == g2 == ref):
            ctx.violation(
                "hardness-depends-on-callers-iterable",
                f"executors given as a {how}: {g1!r}, then {g2!r}; the same "
                f"set-ups as a tuple: {ref!r}", {**case, "how": how})
    # one long-lived objective rates short-lived instances one after the
    # other (each generated from the same template without slack - same
    # name, item count and area -, rated, dropped and collected before the
    # next one is made, as an optimizer's decode / evaluate loop does)
    long_h = Hardness(fes, runs)
    last_id = None
    from moptipyapps.binpacking2d.instgen.inst_decoding import InstanceDecoder
    dec = InstanceDecoder(sp)
    base_dim = 2 * (sp.n_items - sp.min_bins)
    raw_decode = getattr(InstanceDecoder, "_verif_orig_decode",
                         InstanceDecoder.decode)

    def rate(xv):
        # (a helper whose locals die on return: the next instance very often
        # gets the address of this one)
        yl = sp.create()
        raw_decode(dec, xv, yl)     # unobserved: the tracer holds on to
        #                             what it saw until the next decode
        return (long_h.evaluate(yl), Hardness(fes, runs).evaluate(yl),
                id(yl[0]))
    for _j in range(5):
        xv = rng.uniform(-1.0, 1.0, base_dim)
        got, fresh, addr = rate(xv)
        if addr == last_id:
            ctx.count("instance_got_the_address_of_the_collected_one")
        last_id = addr
        ctx.count("short_lived_instances_rated_by_one_objective")
        if got != fresh:
            ctx.violation(
                "hardness-depends-on-what-was-rated-before",
                f"a Hardness({fes}, {runs}) object that rated other (by now "
                f"collected) instances before gives {got!r}, a fresh one "
                f"{fresh!r}", {**case, "x": [float(v) for v in xv]})
            break
    eh = ErrorsAndHardness(sp, fes, runs)
    w1 = eh.evaluate([inst])
    w2 = eh.evaluate([inst])
    if not (0.0 <= w1 <= 1.0) or w1 != w2:
        ctx.violation("errors-and-hardness", f"{w1!r} {w2!r}", case)
    ctx.nontrivial("hardness", tcase, case["x"])


def run_shard(ctx, args):
    try:
        _run_shard(ctx, args)
    except StopShard:
        ctx.note("shard stopped after two decodes without bounded progress")


def _run_shard(ctx, args):
    rng = ctx.rng
    for it in range(args["n"]):
        if it % 3 == 0:
            tcase = str(rng.choice(SHIPPED))
        else:
            tcase = synthetic_template(rng)
        k = int(rng.choice([0, 1, 2, 5, 20]))
        try:
            res = one(ctx, tcase, k)
        except ValueError as e:
            if not isinstance(tcase, str) and wb.outside_domain(tcase):
                ctx.count("generator_rejected_by_ctor")
                continue
            raise
        if res is not None and it % 40 == 0:
            sp, inst, x = res
            ctx.sample({"template": tcase if isinstance(tcase, str) else
                        {k_: tcase[k_] for k_ in ("W", "H", "items")},
                        "min_bins": sp.min_bins, "n_items": sp.n_items,
                        "slack_pairs": k, "x_head": [float(v) for v in x[:6]],
                        "generated": inst.to_compact_str()[:200]})
    for _ in range(args["hard"]):
        tcase = synthetic_template(rng) if rng.integers(3) else str(
            rng.choice(SHIPPED[:8]))
        try:
            hardness(ctx, tcase)
        except ValueError as e:
            if not isinstance(tcase, str) and wb.outside_domain(tcase):
                continue
            raise


def replay(ctx, case):
    if case["kind"] == "hardness":
        hardness(ctx, case["template"])
        return
    one(ctx, case["template"], case["k"], case["x"], case.get("tag", "replay"))
