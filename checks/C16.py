"""C16 - controller blueprints and system equations compute their formulas."""
from __future__ import annotations

import math

import numpy as np

from vlib.oracles import control as oc

PID = "C16"
RULE = ("every bundled controller family on 2-D / 3-D (and ANNs on 6-D) "
        "systems and every system's equations, called through "
        "Controller.controller / System.equations with states and "
        "parameters random in [-32,32], axis aligned, zero and at +-32, "
        "times 0..50; polynomials are probed STRUCTURALLY (unit parameter "
        "vectors must select pairwise distinct monomials that together are "
        "ALL monomials of degree 1..d, plus linearity in the parameters); "
        "partially linear = law of the closest anchor (near ties skipped "
        "and counted); peaks / ANN = layer-by-layer numpy evaluation with "
        "the documented parameter order; min-ANN finite and inside "
        "[-1000,1000]; predefined laws and the three systems = published "
        "formulas; inputs compared bitwise before/after. Generated ANN "
        "architectures (inputs 2..6, outputs 1..6, 0..3 hidden layers of "
        "width 1..8): a few dozen compiled (engine jit), hundreds in engine "
        "py which executes the generated source. non-trivial = distinct "
        "(blueprint, state, params) with all inputs non-zero; distinct "
        "architectures")
LEVEL_ASSUMPTIONS = [
    "oracle vlib/oracles/control.py; tolerance 1e-9 relative to the sum of "
    "absolute term magnitudes (kernels use fastmath)"]


def REQUIRED(tier):  # noqa: N802
    return {"controller_calls": 3000, "polynomial_structures_checked": 6,
            "partially_linear_judged": 500, "ann_architectures[jit]": 10,
            "ann_architectures[py]": 100, "system_equation_calls": 300,
            "min_ann_calls": 100, "inputs_unmodified_checks": 3000,
            "lgpc_zero_denominator_judged": 10,
            "min_ann_calls_near_the_interval_border": 2000,
            "calls_on_exactly_cancelling_inputs": 1000}


def plan(tier: str, seed: int):
    if tier == "quick":
        return [{"name": f"jit{i}", "engine": "jit",
                 "args": {"n": 550, "archs": 5}, "timeout": 1500}
                for i in range(4)] + [
            {"name": f"py{i}", "engine": "py",
             "args": {"n": 60, "archs": 70}, "timeout": 1500}
            for i in range(2)]
    return [{"name": f"jit{i}", "engine": "jit",
             "args": {"n": 15000, "archs": 60}, "timeout": 3400}
            for i in range(12)] + [
        {"name": f"py{i}", "engine": "py",
         "args": {"n": 400, "archs": 600}, "timeout": 3400}
        for i in range(4)]


_SYS = {}


def systems():
    if not _SYS:
        from moptipyapps.dynamic_control.systems.lorenz import make_lorenz
        from moptipyapps.dynamic_control.systems.stuart_landau import (
            make_stuart_landau,
        )
        from moptipyapps.dynamic_control.systems.three_coupled_oscillators \
            import THREE_COUPLED_OSCILLATORS
        _SYS[2] = make_stuart_landau(4)
        _SYS[3] = make_lorenz(4)
        _SYS[6] = THREE_COUPLED_OSCILLATORS
    return _SYS


SPECIAL = (0.0, 0.0, 0.0, 0.5, -0.5, 1.0, -1.0, 1.5, -1.5, 2.0, -2.0, 3.0,
           -3.0)


def gen_vec(rng, n, lo=-32.0, hi=32.0):
    kind = int(rng.integers(8))
    if kind == 0:
        v = np.zeros(n)
        v[int(rng.integers(n))] = float(rng.uniform(lo, hi))
    elif kind == 1:
        v = rng.choice([lo, hi, 0.0, 1.0, -1.0], n).astype(float)
    elif kind == 2:
        v = rng.uniform(-1.0, 1.0, n)
    elif kind == 3:
        # small dyadic values: sums and products cancel EXACTLY, guards such
        # as "denominator == 0" are taken (probability zero for continuous
        # inputs)
        v = rng.choice(SPECIAL, n).astype(float)
    else:
        v = rng.uniform(lo, hi, n)
    return v


def call(ctx, ctrl, state, t, params, case):
    """Call a controller, check input preservation, return out."""
    s0, p0 = state.copy(), params.copy()
    out = np.full(ctrl.control_dims, np.nan)
    ctx.case()
    ctx.count("controller_calls")
    ctrl.controller(state, t, params, out)
    ctx.count("inputs_unmodified_checks")
    if state.tobytes() != s0.tobytes() or params.tobytes() != p0.tobytes():
        ctx.violation(f"controller-modifies-inputs:{case['ctrl']}",
                      "state or params changed by the call", case)
    return out


def check_val(ctx, got, want, scale, case, mech):
    tol = 1e-9 * max(1.0, scale) + 1e-12
    if not (math.isfinite(got) and abs(got - want) <= tol):
        ctx.violation(mech, f"got {got!r}, documented formula gives "
                      f"{want!r} (|diff|={abs(got - want):.3g}, tol={tol:.3g})",
                      case)
        return False
    return True


def jcase(ctrl_name, dims, state, t, params, **kw):
    return dict(kind="call", ctrl=ctrl_name, dims=dims,
                state=[float(v) for v in state], t=float(t),
                params=[float(v) for v in params], **kw)


# -- polynomials --------------------------------------------------------------
def poly_structure(ctx, ctrl, dims, degree):
    rng = ctx.rng
    name = f"{ctrl.name}{dims}d"
    monos = oc.monomials(dims, degree)
    case0 = {"kind": "poly", "ctrl": ctrl.name, "dims": dims,
             "degree": degree}
    if ctrl.param_dims != len(monos):
        ctx.violation(f"polynomial-param-count:{name}",
                      f"{ctrl.param_dims} parameters but {len(monos)} "
                      f"monomials of degree 1..{degree}", case0)
        return
    states = [rng.uniform(0.5, 2.0, dims) * rng.choice([-1, 1], dims)
              for _ in range(4)]
    assigned = {}
    for k in range(ctrl.param_dims):
        e = np.zeros(ctrl.param_dims)
        e[k] = 1.0
        vals = [float(call(ctx, ctrl, s.copy(), 0.0, e.copy(),
                           dict(case0, k=k))[0]) for s in states]
        match = [m for m in monos
                 if all(oc.close(v, oc.mono_value(m, s), 1e-12)
                        for v, s in zip(vals, states))]
        if len(match) != 1:
            ctx.violation(
                f"polynomial-parameter-is-no-monomial:{name}",
                f"parameter {k} alone gives {vals[:2]} at states "
                f"{[list(s) for s in states[:2]]}: matches "
                f"{len(match)} monomials", dict(case0, k=k))
            return
        if match[0] in assigned:
            ctx.violation(
                f"polynomial-monomial-twice:{name}",
                f"parameters {assigned[match[0]]} and {k} both multiply "
                f"monomial {match[0]}", dict(case0, k=k))
            return
        assigned[match[0]] = k
    missing = [m for m in monos if m not in assigned]
    if missing:
        ctx.violation(f"polynomial-monomial-missing:{name}",
                      f"monomials {missing} have no parameter", case0)
        return
    ctx.count("polynomial_structures_checked")
    ctx.nontrivial("poly", name)
    # linearity in the parameters / full evaluation
    for _ in range(30):
        s = gen_vec(rng, dims)
        p = gen_vec(rng, ctrl.param_dims)
        terms = [p[assigned[m]] * oc.mono_value(m, s) for m in monos]
        want = math.fsum(terms)
        c = jcase(ctrl.name, dims, s, 0.0, p)
        got = float(call(ctx, ctrl, s.copy(), float(rng.uniform(0, 50)),
                         p.copy(), c)[0])
        check_val(ctx, got, want, sum(abs(t) for t in terms), c,
                  f"polynomial-value:{name}")
        if np.all(s != 0) and np.all(p != 0):
            ctx.nontrivial(name, c["state"], c["params"])


def controllers_for(dims):
    from moptipyapps.dynamic_control.controllers.cubic import cubic
    from moptipyapps.dynamic_control.controllers.linear import linear
    from moptipyapps.dynamic_control.controllers.min_ann import min_anns
    from moptipyapps.dynamic_control.controllers.partially_linear import (
        partially_linear,
    )
    from moptipyapps.dynamic_control.controllers.peaks import peaks
    from moptipyapps.dynamic_control.controllers.predefined import predefined
    from moptipyapps.dynamic_control.controllers.quadratic import quadratic
    s = systems()[dims]
    return {"linear": linear(s), "quadratic": quadratic(s),
            "cubic": cubic(s), "partially_linear": list(partially_linear(s)),
            "peaks": list(peaks(s)), "min_anns": list(min_anns(s)),
            "predefined": list(predefined(s))}


def judge_family_call(ctx, fam, ctrl, dims, idx, s, t, p):
    """One call of a non-polynomial controller against its formula."""
    name = f"{ctrl.name}{dims}d"
    c = jcase(ctrl.name, dims, s, t, p, fam=fam, idx=idx)
    got = float(call(ctx, ctrl, s.copy(), t, p.copy(), c)[0])
    if fam == "partially_linear":
        k = idx + 2
        if ctrl.param_dims != k * 2 * dims:
            ctx.violation(f"param-count:{name}", f"{ctrl.param_dims}", c)
            return
        want, margin = oc.partially_linear_eval(k, s, p)
        if margin < 1e-9:
            ctx.count("partially_linear_near_tie_skipped")
            return
        ctx.count("partially_linear_judged")
        scale = sum(abs(a * b) for a in s for b in p)
        if check_val(ctx, got, want, scale / max(1, len(p)), c,
                     f"partially-linear-not-closest-anchor:{name}"):
            # did a later anchor beat an earlier non-first one? (D7 shape)
            pass
    elif fam == "peaks":
        k = idx + 1
        if ctrl.param_dims != k * (2 + dims):
            ctx.violation(f"param-count:{name}", f"{ctrl.param_dims}", c)
            return
        want = oc.peaks_eval(k, s, p)
        check_val(ctx, got, want, sum(abs(p[i * (2 + dims)])
                                      for i in range(k)), c,
                  f"peaks-value:{name}")
    elif fam == "min_anns":
        ctx.count("min_ann_calls")
        if not (math.isfinite(got) and -1000.0 <= got <= 1000.0):
            ctx.violation(f"min-ann-outside-search-interval:{name}",
                          f"returned {got!r}", c)
    elif fam == "predefined":
        f = {"cornejo_maceda": oc.cornejo_maceda,
             "table_3_1_ga": oc.table_3_1_ga,
             "table_3_1_lgpc": oc.table_3_1_lgpc}[ctrl.name]
        want = f([float(v) for v in s], [float(v) for v in p])
        sc = 1.0 + sum(abs(a * b) for a in s for b in p)
        if ctrl.name == "table_3_1_lgpc":
            a = s[0] * p[0] + p[1]
            # sin(params[3]/a) is ill-conditioned for tiny a: skip
            if a == 0.0:
                # the documented guard: sin(1) - perfectly conditioned
                ctx.count("lgpc_zero_denominator_judged")
                sc = abs(p[2])
            elif abs(a) < 1e-3 or abs(p[3] / a) > 1e4:
                ctx.count("lgpc_ill_conditioned_skipped")
                return
            else:
                sc = abs(p[2]) * (1.0 + abs(p[3] / a) * 10.0)
        if ctrl.name == "cornejo_maceda" and any(
                0 < abs(b) < 1e-6 for b in p[:3]):
            ctx.count("cornejo_ill_conditioned_skipped")
            return
        check_val(ctx, got, want, sc, c, f"predefined-value:{name}")
    if np.all(s != 0) and np.all(p != 0):
        ctx.nontrivial(name, c["state"], c["params"])


def judge_ann(ctx, ctrl, sd, cd, layers, reps):
    rng = ctx.rng
    name = "ann_" + "_".join(map(str, [sd, cd, *layers]))
    want_n = oc.ann_param_count(sd, cd, layers)
    case0 = {"kind": "ann", "sd": sd, "cd": cd, "layers": layers}
    if ctrl.param_dims != want_n or ctrl.state_dims != sd \
            or ctrl.control_dims != cd:
        ctx.violation("ann-dimensions",
                      f"{name}: param_dims={ctrl.param_dims} (expected "
                      f"{want_n}), state {ctrl.state_dims}, control "
                      f"{ctrl.control_dims}", case0)
        return
    for _ in range(reps):
        s = gen_vec(rng, sd)
        p = gen_vec(rng, want_n) if rng.integers(3) else rng.uniform(
            -2, 2, want_n)
        t = float(rng.uniform(0, 50))
        c = dict(case0, state=[float(v) for v in s],
                 params=[float(v) for v in p], t=t, ctrl=name)
        out = call(ctx, ctrl, s.copy(), t, p.copy(), c)
        want = oc.ann_eval(sd, cd, layers, s, p)
        for i in range(cd):
            # |d out| <= |m| * |d z|, z sums ~ width terms of size <= 32*32
            mi = want_n - (cd - i) * (2 + (layers[-1] if layers else sd))
            if not check_val(ctx, float(out[i]), want[i],
                             abs(p[mi]) * 1e3 + 1.0, c,
                             "ann-value-differs-from-layerwise-evaluation"):
                return
        if np.all(s != 0) and np.all(p != 0):
            ctx.nontrivial(name, c["state"][:2], c["params"][:3])


def judge_system(ctx, dims):
    rng = ctx.rng
    sysm = systems()[dims]
    f = {2: oc.stuart_landau, 3: oc.lorenz, 6: oc.three_oscillators}[dims]
    s = gen_vec(rng, dims, -5.0, 5.0)
    cvec = gen_vec(rng, sysm.control_dims, -32.0, 32.0)
    t = float(rng.uniform(0, 50))
    s0, c0 = s.copy(), cvec.copy()
    out = np.full(dims, np.nan)
    ctx.case()
    ctx.count("system_equation_calls")
    sysm.equations(s, t, cvec, out)
    case = {"kind": "system", "dims": dims, "state": [float(v) for v in s0],
            "control": [float(v) for v in c0], "t": t}
    if s.tobytes() != s0.tobytes() or cvec.tobytes() != c0.tobytes():
        ctx.violation(f"system-modifies-inputs:{sysm.name}", "inputs changed",
                      case)
    want = f([float(v) for v in s0], [float(v) for v in c0])
    scale = 1.0 + sum(abs(v) for v in s0) ** 3 + abs(c0[0])
    for i in range(dims):
        if not check_val(ctx, float(out[i]), want[i], scale, case,
                         f"system-equation:{sysm.name}[{i}]"):
            return
    if np.all(s0 != 0):
        ctx.nontrivial(sysm.name, case["state"], case["control"])


def random_arch(rng):
    sd = int(rng.integers(2, 7))
    cd = int(rng.integers(1, 7))
    layers = [int(rng.integers(1, 9)) for _ in range(int(rng.integers(0, 4)))]
    if layers and not rng.integers(5):   # one wide layer (up to 64 allowed)
        layers[int(rng.integers(len(layers)))] = int(rng.integers(9, 65))
        while n_params(sd, cd, layers) > 1000:
            k = int(np.argmax(layers))
            layers[k] = max(1, layers[k] // 2)
    return sd, cd, layers


def n_params(sd, cd, layers):
    sizes = [sd, *layers, cd]
    return sum((a + 1) * b for a, b in zip(sizes, sizes[1:]))


def short_lived_systems(ctx):
    """The factories are handed systems that live only for the call - a
    2-d one, then (after it was collected) a 3-d one, and so on: what they
    return must fit the system they were just given (dimensions, and a call
    with a state of that size works)."""
    import gc

    from moptipyapps.dynamic_control.controllers.ann import anns
    from moptipyapps.dynamic_control.controllers.cubic import cubic
    from moptipyapps.dynamic_control.controllers.linear import linear
    from moptipyapps.dynamic_control.controllers.min_ann import min_anns
    from moptipyapps.dynamic_control.controllers.partially_linear import (
        partially_linear,
    )
    from moptipyapps.dynamic_control.controllers.peaks import peaks
    from moptipyapps.dynamic_control.controllers.predefined import predefined
    from moptipyapps.dynamic_control.controllers.quadratic import quadratic
    from moptipyapps.dynamic_control.systems.lorenz import make_lorenz
    from moptipyapps.dynamic_control.systems.stuart_landau import (
        make_stuart_landau,
    )
    rng = ctx.rng
    facts = {"linear": linear, "quadratic": quadratic, "cubic": cubic,
             "partially_linear": partially_linear, "peaks": peaks,
             "min_anns": min_anns, "predefined": predefined, "anns": anns}
    for name, fact in facts.items():
        for rep in range(6):
            dims = 2 + rep % 2
            gc.collect()
            got = fact((make_stuart_landau if dims == 2
                        else make_lorenz)(4 + rep))
            got = [got] if hasattr(got, "controller") else list(got)
            ctx.case()
            ctx.count("factory_calls_with_a_short_lived_system")
            for c in got:
                ok = c.state_dims == dims and c.control_dims == 1
                why = (f"state_dims={c.state_dims}, control_dims="
                       f"{c.control_dims}")
                if ok:
                    try:
                        out = np.zeros(1)
                        c.controller(rng.uniform(-1, 1, dims), 0.5,
                                     rng.uniform(-1, 1, c.param_dims), out)
                        ok = bool(np.isfinite(out[0]))
                        why = f"output {out[0]!r}"
                    except Exception as e:  # noqa: BLE001
                        ok, why = False, f"the call raised {e!r}"[:200]
                if not ok:
                    ctx.violation(
                        "controller-does-not-fit-the-system-it-was-made-for",
                        f"{name}(<a fresh {dims}-d system>) returned "
                        f"{c.name!r}: {why}",
                        ctx.shard_replay_case(what="short-lived", fam=name))
                    return


def run_shard(ctx, args):
    from moptipyapps.dynamic_control.controllers.ann import anns, make_ann
    rng = ctx.rng
    eng = ctx.engine
    # structural probing of the six polynomials
    for dims in (2, 3):
        cs = controllers_for(dims)
        for nm, deg in (("linear", 1), ("quadratic", 2), ("cubic", 3)):
            poly_structure(ctx, cs[nm], dims, deg)
    short_lived_systems(ctx)
    # make_ann(1, ...) is accepted by make_ann but rejected by Controller
    try:
        make_ann(1, 1, [2])
        ctx.note("make_ann(state_dims=1) was accepted")
    except ValueError:
        ctx.count("make_ann_state_dims_1_rejected_loudly")
    for it in range(args["n"]):
        dims = 2 if it % 2 else 3
        cs = controllers_for(dims)
        fam = ["partially_linear", "peaks", "min_anns", "predefined",
               "partially_linear"][it % 5]
        if fam == "min_anns" and it % 3:
            fam = "partially_linear"
        lst = cs[fam]
        idx = int(rng.integers(len(lst)))
        ctrl = lst[idx]
        s = gen_vec(rng, dims)
        p = gen_vec(rng, ctrl.param_dims)
        if fam == "partially_linear" and rng.integers(2):
            # anchors close to the state: the closest is often not the first
            k = idx + 2
            for a in range(k):
                p[a * 2 * dims:a * 2 * dims + dims] = s + rng.normal(
                    0, 3.0, dims)
        judge_family_call(ctx, fam, ctrl, dims, idx, s,
                          float(rng.uniform(0, 50)), p)
        if it % 5 == 0:
            judge_system(ctx, [2, 3, 6][it // 5 % 3])
        if it % 10 == 0:
            for dd in (2, 3, 6):
                lst_a = list(anns(systems()[dd]))
                arch = [[], [1], [2], [3], [2, 2], [3, 2]]
                k = int(rng.integers(len(lst_a)))
                judge_ann(ctx, lst_a[k], dd, systems()[dd].control_dims,
                          arch[k], 2)
    # every controller family on exactly cancelling inputs
    for dims in (2, 3):
        cs = controllers_for(dims)
        for fam in ("predefined", "partially_linear", "peaks"):
            lst = cs[fam] if isinstance(cs[fam], (list, tuple)) else [cs[fam]]
            for idx, ctrl in enumerate(lst):
                for _ in range(40 if args.get("c13_slice") else 150):
                    sv = rng.choice(SPECIAL, dims).astype(float)
                    pv = rng.choice(SPECIAL, ctrl.param_dims).astype(float)
                    ctx.count("calls_on_exactly_cancelling_inputs")
                    judge_family_call(ctx, fam, ctrl, dims, idx, sv,
                                      float(rng.choice(SPECIAL)), pv)
    # minimising networks whose hidden neurons switch (arctan argument 0)
    # close to the ends of the search interval [-1000, 1000] or to its
    # centre: the minimiser's bracketing runs into the interval's border
    if not (eng == "py"):
        for dims in (2, 3):
            lst = controllers_for(dims)["min_anns"]
            for idx, ctrl in enumerate(lst):
                nodes = idx + 1
                for _ in range(60 if args.get("c13_slice") else 400):
                    sv = rng.uniform(-30, 30, dims)
                    pv = rng.uniform(-32, 32, ctrl.param_dims)
                    for k in range(nodes):
                        if nodes == 1:
                            # one neuron: state weights and the weight of the
                            # minimised input only
                            x0 = float(rng.choice([-1000, 1000, 990, 0]))
                            xw = float(rng.choice([-1, 1])) * float(
                                10 ** rng.uniform(-2.5, 0))
                            w = (-xw * x0) * sv / float(sv @ sv)
                            if np.max(np.abs(w)) <= 32:
                                pv[0:dims] = w
                                pv[dims] = xw
                            continue
                        o = k * (dims + 2)
                        x0 = float(rng.choice([-1000, -995, -990, 990, 995,
                                               1000, 1005, 1010, 0, 985]))
                        x0 += float(rng.uniform(-6, 6))
                        xw = float(rng.choice([-1, 1])) * float(
                            10 ** rng.uniform(-2.5, 0))
                        bias = float(rng.uniform(-32, 32))
                        hl = -xw * x0 - bias
                        w = hl * sv / float(sv @ sv)
                        if np.max(np.abs(w)) > 32:
                            continue
                        pv[o:o + dims] = w
                        if rng.integers(2):
                            pv[o + dims], pv[o + dims + 1] = xw, bias
                        else:
                            pv[o + dims], pv[o + dims + 1] = bias, xw
                    ctx.count("min_ann_calls_near_the_interval_border")
                    judge_family_call(ctx, "min_anns", ctrl, dims, idx, sv,
                                      0.5, pv)
    for a in range(args["archs"]):
        sd, cd, layers = random_arch(rng)
        ctrl = make_ann(sd, cd, list(layers))
        ctx.count(f"ann_architectures[{eng}]")
        ctx.seen_max("max_ann_params", ctrl.param_dims)
        ctx.nontrivial("arch", sd, cd, layers)
        judge_ann(ctx, ctrl, sd, cd, layers, 6)
        # history of the factory's cache: neighbouring architectures that
        # differ only in the order of layers / of the dimensions
        if len(set(layers)) > 1 and n_params(sd, cd, layers[::-1]) <= 1000:
            rl = list(layers[::-1])
            judge_ann(ctx, make_ann(sd, cd, list(rl)), sd, cd, rl, 2)
            ctx.count("ann_reversed_layer_order_pairs")
        # ... and architectures whose descriptions read alike: [12] and
        # [1, 2], [1, 23] and [12, 3]
        if a % 3 == 0:
            w1, w2 = int(rng.integers(1, 7)), int(rng.integers(0, 10))
            if w1 == 6:
                w2 = min(w2, 4)
            wide = [int(f"{w1}{w2}")]
            split = [w1, w2] if w2 >= 1 else [w1]
            first, second = (wide, split) if rng.integers(2) else (
                split, wide)
            judge_ann(ctx, make_ann(sd, cd, list(first)), sd, cd, first, 1)
            judge_ann(ctx, make_ann(sd, cd, list(second)), sd, cd, second, 2)
            ctx.count("ann_same_digits_pairs")
        if sd != cd and n_params(max(cd, 2), sd, layers) <= 1000:
            judge_ann(ctx, make_ann(cd if cd >= 2 else 2, sd, list(layers)),
                      cd if cd >= 2 else 2, sd, layers, 2)
            ctx.count("ann_swapped_dimension_pairs")
        if a % 20 == 0:
            ctx.sample({"architecture": {"in": sd, "out": cd,
                                         "hidden": layers},
                        "param_dims": ctrl.param_dims, "engine": eng})


def c13_corpus(r, rng):
    """Direct calls for C13 (bc: raw arrays, py: IndexSpy arrays)."""
    from moptipyapps.dynamic_control.controllers.ann import anns, make_ann
    for dims in (2, 3):
        cs = controllers_for(dims)
        flat = [cs["linear"], cs["quadratic"], cs["cubic"]]
        for k in ("partially_linear", "peaks", "min_anns", "predefined"):
            flat.extend(cs[k])
        flat.extend(anns(systems()[dims]))
        for ctrl in flat:
            if "min_ann" in ctrl.name and r.py:
                continue        # array arithmetic on slices, very slow
            s = rng.uniform(-2, 2, dims)
            p = rng.uniform(-2, 2, ctrl.param_dims)
            out = np.empty(ctrl.control_dims)
            r.call(f"controller.{ctrl.name}{dims}d", f"dims={dims}",
                   lambda: ctrl.controller(r.w(s, "state"), 0.5,
                                           r.w(p, "params"),
                                           r.w(out, "out")))
    for dims in (2, 3, 6):
        sysm = systems()[dims]
        s = rng.uniform(-1, 1, dims)
        c = rng.uniform(-1, 1, sysm.control_dims)
        out = np.empty(dims)
        r.call(f"system.{sysm.name}", f"dims={dims}",
               lambda: sysm.equations(r.w(s, "state"), 0.1,
                                      r.w(c, "control"), r.w(out, "out")))
    sd, cd, layers = random_arch(rng)
    ctrl = make_ann(sd, cd, list(layers))
    s = rng.uniform(-2, 2, sd)
    p = rng.uniform(-2, 2, ctrl.param_dims)
    out = np.empty(cd)
    r.call("controller.generated_ann", f"{sd}/{cd}/{layers}",
           lambda: ctrl.controller(r.w(s, "state"), 0.5, r.w(p, "params"),
                                   r.w(out, "out")))
    # history of the factory: a sibling with more outputs / more inputs was
    # requested first; the arrays have the sizes of the LATER request
    for _ in range(3):
        sd, cd, layers = random_arch(rng)
        if n_params(sd + 2, cd + 3, layers) > 1000:
            layers = [min(v, 8) for v in layers]
        make_ann(sd, cd + int(rng.integers(1, 4)), list(layers))
        make_ann(sd + int(rng.integers(1, 3)), cd, list(layers))
        ctrl2 = make_ann(sd, cd, list(layers))
        s2 = rng.uniform(-2, 2, sd)
        p2 = rng.uniform(-2, 2, oc.ann_param_count(sd, cd, layers))
        out2 = np.empty(cd)
        r.call("controller.generated_ann_after_sibling",
               f"{sd}/{cd}/{layers}",
               lambda: ctrl2.controller(r.w(s2, "state"), 0.5,
                                        r.w(p2, "params"), r.w(out2, "out")))


def replay(ctx, case):
    from moptipyapps.dynamic_control.controllers.ann import make_ann
    k = case["kind"]
    if k == "poly":
        cs = controllers_for(case["dims"])
        poly_structure(ctx, cs[case["ctrl"]], case["dims"], case["degree"])
    elif k == "ann":
        ctrl = make_ann(case["sd"], case["cd"], list(case["layers"]))
        name = "ann"
        s = np.array(case["state"])
        p = np.array(case["params"])
        out = call(ctx, ctrl, s.copy(), case["t"], p.copy(), case)
        want = oc.ann_eval(case["sd"], case["cd"], case["layers"], s, p)
        for i in range(case["cd"]):
            check_val(ctx, float(out[i]), want[i], 1e3 * (1 + abs(p).max()),
                      case, "ann-value-differs-from-layerwise-evaluation")
        _ = name
    elif k == "system":
        # re-run a few random ones plus the witness state
        dims = case["dims"]
        sysm = systems()[dims]
        f = {2: oc.stuart_landau, 3: oc.lorenz, 6: oc.three_oscillators}[dims]
        out = np.full(dims, np.nan)
        sysm.equations(np.array(case["state"]), case["t"],
                       np.array(case["control"]), out)
        want = f(case["state"], case["control"])
        ctx.case()
        for i in range(dims):
            check_val(ctx, float(out[i]), want[i],
                      1.0 + sum(abs(v) for v in case["state"]) ** 3, case,
                      f"system-equation:{sysm.name}[{i}]")
    else:
        dims = case["dims"]
        cs = controllers_for(dims)
        fam = case.get("fam")
        if fam is None:
            ctrl = cs[case["ctrl"]]
            deg = {"linear": 1, "quadratic": 2, "cubic": 3}[case["ctrl"]]
            poly_structure(ctx, ctrl, dims, deg)
            return
        ctrl = cs[fam][case["idx"]]
        judge_family_call(ctx, fam, ctrl, dims, case["idx"],
                          np.array(case["state"]), case["t"],
                          np.array(case["params"]))
