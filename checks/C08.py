"""C08 - TTP travel length matches the tournament model, byes are penalised."""
from __future__ import annotations

import numpy as np

from checks import C07
from vlib.oracles import ttp as ot

PID = "C08"
RULE = ("(a) random distance matrices (symmetric, asymmetric, non-metric, "
        "with zeros, two-valued so that a replaced game really saves 2*max, "
        "large entries) x plans (uniform over -n..n, consistent, circle "
        "method, with byes / self-pairings) for n = 2..12, rounds 1..3 "
        "through GamePlanLength.evaluate on real GamePlan objects: value = "
        "plain simulation, inside [lower_bound, upper_bound], bye_penalty = "
        "2*max+1; (b) bye clause: for EVERY (day, team) cell holding a game, "
        "zeroing that one cell strictly increases the value; (c) optimum "
        "clause, EXHAUSTIVE: over all 12^6 consistent plans of each shipped "
        "four-team instance (repository kernels in a harness-side compiled "
        "loop) the minimum length over plans with Errors == 0 equals the "
        "published optimum and the minimum over the independent DFS feasible "
        "set. non-trivial = distinct (matrix, plan) with >= 1 away game and "
        ">= 1 bye replacement tested")
LEVEL_ASSUMPTIONS = ["oracle vlib/oracles/ttp.py:plan_length (plain "
                     "simulation from the property text)"]

FOUR = ("circ4", "con4", "gal4", "incr4", "line4", "nl4", "sup4")


def REQUIRED(tier):  # noqa: N802
    return {"length_evaluations": 1000, "bye_replacements": 5000,
            "optimum_instances": 2 if tier == "quick" else 7,
            "asymmetric_matrices": 50, "size_window_plans": 10,
            "every_even_team_count_plans": 100,
            "one_long_directed_trip_matrices": 20}


def plan(tier: str, seed: int):
    names = FOUR[:2] if tier == "quick" else FOUR
    if tier == "quick":
        # rotate which two instances are enumerated with the seed
        k = seed % len(FOUR)
        names = (FOUR[k], FOUR[(k + 3) % len(FOUR)])
    shards = [{"name": f"opt-{nm}", "engine": "jit",
               "args": {"mode": "optimum", "name": nm}, "timeout": 1800}
              for nm in names]
    nr = 3 if tier == "quick" else 14
    per = 700 if tier == "quick" else 60000
    for i in range(nr):
        shards.append({"name": f"rnd{i}", "engine": "jit",
                       "args": {"mode": "random", "n": per},
                       "timeout": 3000})
    return shards


_JIT = {}
CLONE = [0]


def jit_helpers():
    if _JIT:
        return _JIT
    import numba

    from moptipyapps.ttp.errors import count_errors
    from moptipyapps.ttp.plan_length import game_plan_length

    @numba.njit(cache=False)
    def enum_both(cfgs, D, hmin, hmax, amin, amax, smin, smax, t1, t2, dist,
                  pen, errs, lens):
        ncfg = cfgs.shape[0]
        n = cfgs.shape[1]
        plan = np.empty((D, n), cfgs.dtype)
        for idx in range(errs.shape[0]):
            r = idx
            for d in range(D):
                plan[d, :] = cfgs[r % ncfg]
                r //= ncfg
            errs[idx] = count_errors(plan, hmin, hmax, amin, amax, smin, smax,
                                     t1, t2)
            lens[idx] = game_plan_length(plan, dist, pen)

    _JIT["enum_both"] = enum_both
    return _JIT


def optimum(ctx, name):
    from moptipyapps.ttp.errors import Errors
    from moptipyapps.ttp.instance import Instance
    from moptipyapps.ttp.plan_length import GamePlanLength
    inst = Instance.from_resource(name)
    n = inst.n_cities
    cfg = (inst.rounds, inst.home_streak_min, inst.home_streak_max,
           inst.away_streak_min, inst.away_streak_max, inst.separation_min,
           inst.separation_max)
    D = (n - 1) * inst.rounds
    dist = [[int(v) for v in row] for row in np.asarray(inst)]
    eo = Errors(inst)
    lo = GamePlanLength(inst)
    cfgs_l = ot.day_configs(n)
    cfgs = np.array(cfgs_l, dtype=inst.game_plan_dtype)
    total = len(cfgs_l) ** D
    t1, t2 = C07.temps(eo, n, D)
    errs = np.empty(total, np.int64)
    lens = np.empty(total, np.int64)
    jit_helpers()["enum_both"](
        cfgs, D, cfg[1], cfg[2], cfg[3], cfg[4], cfg[5], cfg[6], t1, t2,
        inst, lo.bye_penalty, errs, lens)
    ctx.case(total)
    ctx.count("exhaustive_plans", total)
    ctx.mark_exhaustive(f"all 12^6 consistent plans of {name}")
    pub_lo, pub_hi = inst.get_optimal_plan_length_bounds()
    case = {"kind": "optimum", "name": name}
    # independent feasible set and lengths
    feas = ot.feasible_set_dfs(n, cfg)
    best_o = None
    best_plan = None
    for tup in feas:
        p = [list(cfgs_l[ci]) for ci in tup]
        ln = ot.plan_length(dist, p)
        if best_o is None or ln < best_o:
            best_o, best_plan = ln, p
    zero = np.flatnonzero(errs == 0)
    ctx.count("feasible_plans_oracle", len(feas))
    ctx.count("zero_error_plans_repo", int(len(zero)))
    if len(zero) == 0:
        ctx.violation("no-error-free-plan", f"{name}: no plan with Errors=0",
                      case)
        return
    best_r = int(lens[zero].min())
    ctx.count("optimum_instances")
    for tup in list(feas)[:400]:
        ctx.nontrivial(name, tup)
    if pub_lo != pub_hi:
        ctx.note(f"{name}: published optimum is an interval {pub_lo}..{pub_hi}")
    if not pub_lo <= best_r <= pub_hi:
        ctx.violation("optimum-differs-from-published",
                      f"{name}: min length over error-free plans = {best_r}, "
                      f"published optimum {pub_lo}..{pub_hi} (oracle over the "
                      f"independent feasible set: {best_o})", case)
    if best_o != best_r:
        ctx.violation("optimum-differs-from-oracle",
                      f"{name}: repo min over Errors==0 plans = {best_r}, "
                      f"oracle min over feasible plans = {best_o}", case)
    # all lengths equal the simulation (sampled) and every length in bounds
    rng = ctx.rng
    for idx in list(rng.integers(0, total, 1500)) + [int(zero[0])]:
        p = C07.idx_to_plan(int(idx), cfgs_l, D)
        ctx.count("length_evaluations")
        if ot.plan_length(dist, p) != lens[idx]:
            ctx.violation("length-differs-from-simulation",
                          f"{name}: {lens[idx]} vs simulation "
                          f"{ot.plan_length(dist, p)}",
                          {"kind": "plan", "matrix": dist, "cfg": list(cfg),
                           "plan": p, "n": n})
            break
    if int(lens.min()) < lo.lower_bound() or int(lens.max()) > \
            lo.upper_bound():
        ctx.violation("length-outside-bounds",
                      f"{name}: lengths {lens.min()}..{lens.max()} outside "
                      f"[{lo.lower_bound()}, {lo.upper_bound()}]", case)
    ctx.sample({"instance": name, "published": [pub_lo, pub_hi],
                "repo_min_over_error_free": best_r, "oracle_min": best_o,
                "feasible_plans": len(feas), "best_plan": best_plan})


def gen_directed_trip(rng, n, rounds):
    """One long directed trip, everything else short: the sum of the row
    maxima (what the instance sizes its integer type by) is hardly larger
    than the longest distance, and times rounds * n it sits just below a
    type limit - while bye penalties are 2 * max + 1 per day off."""
    lim = int(rng.choice([127, 32767, 2 ** 31 - 1]))
    small = 7
    big = lim // (rounds * n) - small * (n - 1) - int(rng.integers(0, 3))
    if big <= small:
        return None
    m = [[0 if i == j else int(rng.integers(1, small + 1))
          for j in range(n)] for i in range(n)]
    a, b = (int(v) for v in rng.choice(n, 2, replace=False))
    m[a][b] = big
    return m


def gen_matrix(rng, n):
    kind = int(rng.integers(7))
    m = [[0] * n for _ in range(n)]
    sym = kind in (0, 1, 2)
    hi = int(rng.choice([3, 10, 100, 10_000, 10 ** 9, 2 ** 31, 10 ** 11,
                         10 ** 12]))
    for i in range(n):
        for j in range(n):
            if i == j or (sym and j < i):
                continue
            if kind in (1, 4):       # two-valued
                v = int(rng.choice([1, hi]))
            elif kind in (2, 5):     # with zeros
                v = int(rng.integers(0, hi + 1)) if rng.integers(3) else 0
            else:
                v = int(rng.integers(1, hi + 1))
            m[i][j] = v
            if sym:
                m[j][i] = v
    # each row needs a positive entry
    for i in range(n):
        if max(m[i]) <= 0:
            j = (i + 1) % n
            m[i][j] = 1
            if sym:
                m[j][i] = 1
    return m, ("sym" if sym else "asym")


def eval_length(ctx, n, cfg, matrix, plan_rows, tag, bye_cells="all",
                layout=None):
    from moptipyapps.ttp.game_plan import GamePlan
    from moptipyapps.ttp.game_plan_space import GamePlanSpace
    from moptipyapps.ttp.plan_length import GamePlanLength
    if layout is None:
        from vlib.workloads.arrays import LAYOUTS
        layout = str(ctx.rng.choice(LAYOUTS + ("C", "C")))
    ctx.count(f"input_layout[{layout}]")
    inst = C07.make_instance(n, tuple(cfg), matrix, layout)
    obj = GamePlanLength(inst)
    gp = GamePlan(inst)
    gp[:, :] = np.array(plan_rows, dtype=np.int64)
    GamePlanSpace(inst).validate(gp)
    case = {"kind": "plan", "n": n, "cfg": list(cfg), "matrix": matrix,
            "plan": plan_rows, "tag": tag, "layout": layout}
    ctx.case()
    ctx.count("length_evaluations")
    ctx.count(f"tag[{tag}]")
    ctx.count(f"dtype[{inst.dtype}]")
    v = obj.evaluate(gp)
    want = ot.plan_length(matrix, plan_rows)
    CLONE[0] += 1
    if CLONE[0] % 8 == 0:
        from vlib.clones import judge_clones
        judge_clones(ctx, obj, lambda o: (o.evaluate(gp), o.lower_bound(),
                                          o.upper_bound()),
                     (want, obj.lower_bound(), obj.upper_bound()),
                     "plan-length", case)
    mx = max(max(r) for r in matrix)
    if obj.bye_penalty != 2 * mx + 1:
        ctx.violation("bye-penalty", f"bye_penalty={obj.bye_penalty}, "
                      f"2*max+1={2 * mx + 1}", case)
    if v != want or isinstance(v, bool) or not isinstance(v, int):
        ctx.violation("length-differs-from-simulation",
                      f"GamePlanLength = {v!r}, simulation = {want}", case)
    if not obj.lower_bound() <= v <= obj.upper_bound():
        ctx.violation("length-outside-bounds",
                      f"{v} not in [{obj.lower_bound()}, "
                      f"{obj.upper_bound()}]", case)
    # bye clause on every cell that holds a game
    tested = 0
    aways = 0
    D = len(plan_rows)
    cells = [(d, t) for d in range(D) for t in range(n)]
    if bye_cells != "all":
        idx = ctx.rng.choice(len(cells), min(bye_cells, len(cells)),
                             replace=False)
        cells = [cells[int(i)] for i in idx]
    for d, t in cells:
        old = int(gp[d, t])
        if old == 0:
            continue
        if old < 0:
            aways += 1
        gp[d, t] = 0
        v2 = obj.evaluate(gp)
        gp[d, t] = old
        tested += 1
        if not v2 > v:
            ctx.violation("bye-does-not-increase-length",
                          f"zeroing cell (day {d}, team {t + 1}, was {old}) "
                          f"changes the length from {v} to {v2}",
                          dict(case, cell=[d, t]))
            break
    ctx.count("bye_replacements", tested)
    # the same object, the same plan, after it has seen all the other plans
    v3 = obj.evaluate(gp)
    ctx.count("re_evaluations_after_history")
    if v3 != v:
        ctx.violation("length-depends-on-history",
                      f"the same plan evaluates to {v} first and to {v3} "
                      f"after {tested} other plans on the same objective "
                      f"object", case)
    if aways and tested:
        ctx.nontrivial(matrix, plan_rows)
    return v


def random_shard(ctx, count):
    rng = ctx.rng
    for it in range(count):
        n = int(rng.choice([2, 4, 4, 6, 6, 8, 10, 12]))
        rounds = int(rng.choice([1, 2, 2, 3]))
        if it % 20 == 13:
            # team / day counts around 2^6, 2^7, 2^8
            n, rounds = [(64, 1), (66, 1), (128, 1), (130, 1), (4, 43),
                         (4, 86), (6, 52)][int(rng.integers(7))]
            ctx.count("size_window_plans")
        elif it % 7 == 5:
            # EVERY even team count from 14 to 62 in turn, one or two rounds
            n = 14 + 2 * ((it // 7 + ctx.shard_idx * 7) % 25)
            rounds = 1 + (it // 7) % 2
            ctx.count("every_even_team_count_plans")
        ll = rounds * n - 1
        cfg = (rounds, 1, min(3, ll), 1, min(3, ll), min(1, ll), ll)
        D = (n - 1) * rounds
        matrix, mk = gen_matrix(rng, n)
        trip = None
        if it % 7 == 3 and n >= 3:
            trip = gen_directed_trip(rng, n, rounds)
            if trip is not None:
                matrix, mk = trip, "asym"
                ctx.count("one_long_directed_trip_matrices")
        ctx.count("asymmetric_matrices" if mk == "asym"
                  else "symmetric_matrices")
        kind = it % 5
        if trip is not None:
            kind = 5
        if kind == 0:
            p = [[int(v) for v in rng.integers(-n, n + 1, n)]
                 for _ in range(D)]
            tag = "uniform"
        elif kind == 1:
            p = ot.circle_method(n, rounds, bool(rng.integers(2)))
            tag = "circle"
        elif kind == 2:
            p = []
            for _ in range(D):
                order = list(rng.permutation(n))
                day = [0] * n
                for i in range(0, n, 2):
                    a, b = int(order[i]), int(order[i + 1])
                    day[a] = b + 1
                    day[b] = -(a + 1)
                p.append(day)
            tag = "consistent-random"
        elif kind == 3:
            p = ot.circle_method(n, rounds, True)
            for _ in range(int(rng.integers(1, 5))):
                p[int(rng.integers(D))][int(rng.integers(n))] = int(
                    rng.integers(-n, n + 1))
            tag = "circle+edits"
        elif kind == 5:
            # one team (or two) has (almost) every day off
            p = ot.circle_method(n, rounds, True)
            for t in {int(v) for v in rng.choice(n, int(rng.integers(1, 3)),
                                                 replace=False)}:
                keep = int(rng.integers(0, 2))
                days_on = set(int(v) for v in rng.choice(D, keep,
                                                         replace=False))
                for d in range(D):
                    if d not in days_on:
                        p[d][t] = 0
            tag = "team-days-off"
        else:
            # long away trips: everyone away all the time / extremes
            p = [[-(((a + 1 + d) % n) + 1) for a in range(n)]
                 for d in range(D)]
            if rng.integers(2):
                for d in range(D):
                    for a in range(n):
                        if rng.integers(4) == 0:
                            p[d][a] = (a + 1) * int(rng.choice([1, -1]))
            tag = "all-away"
        try:
            eval_length(ctx, n, cfg, matrix, p, tag,
                        "all" if n * D <= 80 else 60)
        except ValueError as e:
            # the instance refuses tour-length bounds above 10^15: the
            # generator left the accepted range, nothing was observed
            # (judged on the matrix - sum of the row maxima beyond 10^15 -,
            # not on the message's wording)
            if sum(max(row) for row in matrix) > 10 ** 15:
                ctx.count("generator_rejected_by_ctor")
                continue
            raise
        if it % 300 == 0:
            ctx.sample({"n": n, "rounds": rounds, "matrix": matrix[:3],
                        "tag": tag, "plan_first_days": p[:2]})


def run_shard(ctx, args):
    if args["mode"] == "optimum":
        optimum(ctx, args["name"])
    else:
        random_shard(ctx, args["n"])


def replay(ctx, case):
    if case["kind"] == "optimum":
        optimum(ctx, case["name"])
    else:
        eval_length(ctx, case["n"], case["cfg"], case["matrix"],
                    case["plan"], case.get("tag", "replay"),
                    layout=case.get("layout", "C"))
