"""C02 - packing objectives agree with bin count, definitions and bounds."""
from __future__ import annotations

import itertools

from vlib.monitors.packing_contracts import PackingMonitor, objective_classes
from vlib.oracles import packing as po
from vlib.workloads import binpack as wb

PID = "C02"
RULE = ("per instance a pool of feasible packings (oracle-filtered) from "
        "both decoders and from layouts the decoders cannot produce (row "
        "shuffles, bin relabelings with sparse/fullest last bin, mirrored, "
        "lifted item, item moved to a bin of its own, every item its own bin, "
        "random rejection placements); every one of the seven objectives is "
        "evaluated with ONE long-lived objective object per instance (history "
        "of scratch arrays, ordered by decreasing bin count) under an "
        "icontract postcondition recomputing the documented value; bounds, "
        "to_bin_count and pairwise dominance over all pool pairs with "
        "different bin counts; from_packing_and_end_result must not raise. "
        "non-trivial = distinct (instance, packing) with >= 2 bins or a "
        "non-decoder origin")
LEVEL_ASSUMPTIONS = [
    "objective oracle vlib/oracles/packing.py:objective_values written from "
    "the property text (skyline by coordinate compression)"]
REQUIRED = {"evaluations_by_copied_objectives": 500,
            "concurrent_objective_evaluations": 5000, "suite_runs": 1, "contract_evaluate_evaluated": 2000, "dominance_pairs": 300,
            "origin[nondecoder]": 200, "from_packing_and_end_result_ok": 20,
            "dtype[int8]": 1, "dtype[int16]": 1, "dtype[int32]": 1,
            "dtype[int64]": 1}
MON = None
INT64_MAX = 2 ** 63 - 1


# the repository's own tests as a further workload, observed by the
# process-wide contracts of vlib/monitors (see vlib/suite.py)
SUITE_TESTS = ['tests/binpacking2d/objectives']
SUITE_DOMAINS = ['packing']


def plan(tier: str, seed: int):
    rounds = 1 if tier == "quick" else 6
    return _plan(tier, seed) + [
        {"name": "threads", "engine": "jit", "timeout": 3000,
         "args": {"mode": "threads", "n": 5 if tier == "quick" else 60}}] + [
        {"name": f"suite{i}", "engine": "jit", "timeout": 3000,
         "args": {"mode": "suite", "tests": SUITE_TESTS,
                  "domains": SUITE_DOMAINS, "rounds": rounds}}
        for i in range(1 if tier == "quick" else 4)]


def _plan(tier: str, seed: int):
    if tier == "quick":
        return [{"name": f"s{i}", "engine": "jit", "args": {"n": 120},
                 "timeout": 900} for i in range(4)]
    return [{"name": f"s{i}", "engine": "jit", "args": {"n": 2500},
             "timeout": 3000} for i in range(16)]


def _monitor(ctx):
    global MON
    if MON is None:
        MON = PackingMonitor(ctx)
        MON.install(objectives=True)
    return MON


def build_pool(ctx, desc, inst):
    """Feasible packings (tag, rows, k) of the instance."""
    from moptipyapps.binpacking2d.encodings.ibl_encoding_1 import (
        ImprovedBottomLeftEncoding1,
    )
    from moptipyapps.binpacking2d.encodings.ibl_encoding_2 import (
        ImprovedBottomLeftEncoding2,
    )
    from moptipyapps.binpacking2d.packing import Packing
    rng = ctx.rng
    pool = []
    y = Packing(inst)
    for cls in (ImprovedBottomLeftEncoding1, ImprovedBottomLeftEncoding2):
        enc = cls(inst)
        for kind in ("random", "bigfirst", "smallfirst", "random"):
            enc.decode(wb.x_buffer(wb.gen_perm(rng, desc, kind), inst), y)
            pool.append(("decoded", wb.rows_of(y), int(y.n_bins)))
    if max(desc["W"], desc["H"]) <= 40:
        for _ in range(2):
            rp = wb.random_placement(rng, desc)
            if rp is not None:
                pool.append(("randomplace", rp, max(r[1] for r in rp)))
    for tag, rows, _k in list(pool[:3]) + list(pool[-2:]):
        for vt, vr in wb.layout_variants(rng, desc, rows):
            pool.append((vt, vr, max(r[1] for r in vr)))
    out = []
    seen = set()
    for tag, rows, k in pool:
        if po.infeasibility(desc, rows, k) is not None:
            ctx.count("pool_candidate_infeasible_dropped")
            continue
        key = repr(rows)
        if key in seen:
            continue
        seen.add(key)
        out.append((tag, rows, k))
    return out


STATE = {"n": 0}


def one_instance(ctx, desc):
    from moptipy.evaluation.end_results import EndResult

    from moptipyapps.binpacking2d.packing_result import (
        from_packing_and_end_result,
    )
    mon = _monitor(ctx)
    inst = wb.make_real(desc)
    ctx.count(f"dtype[{inst.dtype}]")
    ctx.count(f"inst_cls[{desc['cls']}]")
    pool = build_pool(ctx, desc, inst)
    if not pool:
        return
    objs = {k: c(inst) for k, c in objective_classes().items()}
    bounds = {}
    for key, o in objs.items():
        lb, ub = o.lower_bound(), o.upper_bound()
        bounds[key] = (lb, ub)
        if not (isinstance(lb, int) and isinstance(ub, int)) or lb > ub:
            ctx.violation(f"bounds-malformed:{key}", f"{key}: lb={lb} ub={ub}",
                          {"kind": "pool", "desc": desc, "pool": []})
    # copies of the objective objects (copy / deepcopy / pickle round trip)
    # rate the packing with the most bins first - a copy behaves like the
    # object it was made from (the contract judges their values as well)
    if STATE["n"] % 3 == 0:
        from vlib.clones import clones
        tag, rows, k = max(pool, key=lambda t: t[2])
        y = wb.to_packing(inst, rows, k)
        want = po.objective_values(desc, rows)
        for key, o in objs.items():
            if want[key] > INT64_MAX:
                continue
            for how, c in clones(ctx, o):
                try:
                    v = c.evaluate(y)
                    cb = (c.lower_bound(), c.upper_bound())
                except IndexError:
                    raise       # an index outside an array is never "loud"
                except Exception:  # noqa: BLE001
                    # a copy that refuses to work (instances lose their
                    # attributes in deepcopy / pickle) is loud, not wrong
                    ctx.count(f"copied_objective_unusable[{how}]")
                    continue
                ctx.count("evaluations_by_copied_objectives")
                if v != want[key] or cb != bounds[key]:
                    ctx.violation(
                        f"copied-objective-differs:{key}",
                        f"{how} of {key}: evaluate = {v} (documented "
                        f"{want[key]}), bounds {cb} vs {bounds[key]}",
                        {"kind": "pool", "desc": desc,
                         "pool": [[tag, rows, k]], "objective": key})
    STATE["n"] += 1
    # history: decreasing bin count first (stale scratch entries), then random
    order = sorted(range(len(pool)), key=lambda i: -pool[i][2])
    extra = list(range(len(pool)))
    ctx.rng.shuffle(extra)
    values: list[dict[str, int]] = [dict() for _ in pool]
    for pos, i in enumerate(order + extra):
        tag, rows, k = pool[i]
        y = wb.to_packing(inst, rows, k)
        ctx.case()
        ctx.count("origin[decoder]" if tag == "decoded"
                  else "origin[nondecoder]")
        ctx.count(f"tag[{tag}]")
        if k >= 2 or tag != "decoded":
            ctx.nontrivial(desc["W"], desc["H"], desc["items"], rows)
        want = po.objective_values(desc, rows)
        for key, o in objs.items():
            mon.current = None
            v = o.evaluate(y)           # contract fires here
            ctx.count("evaluate_calls")
            lb, ub = bounds[key]
            case = {"kind": "pool", "desc": desc,
                    "pool": [[t, r, kk] for t, r, kk in
                             (pool[j] for j in (order + extra)[:pos + 1])],
                    "objective": key}
            if want[key] > INT64_MAX:
                # the documented value does not fit the kernels' 64 bit
                # arithmetic: one mechanism, judged on its own
                ctx.count("documented_value_beyond_int64")
                if v != want[key]:
                    ctx.violation(
                        f"objective-value-beyond-int64:{key}",
                        f"{key} = {v}, documented value {want[key]} > 2^63-1 "
                        f"(bin {desc['W']}x{desc['H']}, {k} bins)", case)
                    values[i][key] = want[key]
                    continue
            if want[key] > 2 ** 53:
                ctx.count("documented_value_beyond_2^53")
            if v != want[key]:
                # also recorded by the contract; this one carries the history
                ctx.violation(f"objective-value-in-history:{key}",
                              f"{key} = {v}, documented {want[key]} "
                              f"(packing #{pos} of a history, tag {tag})",
                              case)
            if not lb <= v <= ub:
                ctx.violation(f"objective-outside-bounds:{key}",
                              f"{key} = {v} not in [{lb}, {ub}]", case)
            bc = o.to_bin_count(v)
            if bc != k:
                ctx.violation(f"to-bin-count:{key}",
                              f"{key}.to_bin_count({v}) = {bc}, bins = {k}",
                              case)
            values[i][key] = v
            ctx.seen_max("max_objective_value", int(v))
        ctx.seen_max("max_bins", k)
    # dominance over all pairs with different bin counts
    for a, b in itertools.combinations(range(len(pool)), 2):
        ka, kb = pool[a][2], pool[b][2]
        if ka == kb:
            continue
        if ka > kb:
            a, b, ka, kb = b, a, kb, ka
        ctx.count("dominance_pairs")
        for key in objs:
            if not values[a][key] < values[b][key]:
                ctx.violation(
                    f"dominance:{key}",
                    f"{key}: {ka} bins -> {values[a][key]} but {kb} bins -> "
                    f"{values[b][key]}",
                    {"kind": "pool", "desc": desc,
                     "pool": [list(pool[a]), list(pool[b])]})
    # from_packing_and_end_result: built-in cross-objective agreement monitor
    tag, rows, k = pool[int(ctx.rng.integers(len(pool)))]
    y = wb.to_packing(inst, rows, k)
    key = str(ctx.rng.choice(sorted(objs)))
    allv = po.objective_values(desc, rows)
    if max(allv.values()) > INT64_MAX:
        # PackingResult evaluates all objectives: same mechanism as above
        ctx.count("packing_result_skipped_beyond_int64")
        return
    bf = allv[key]
    er = EndResult("algo", inst.name, key, None, 1, bf, 1, 1, 2, 2, None,
                   None, None)
    ctx.case()
    try:
        pr = from_packing_and_end_result(er, y)
        ctx.count("from_packing_and_end_result_ok")
        got = dict(pr.objectives)
        want = po.objective_values(desc, rows)
        if got != want:
            ctx.violation("packing-result-objectives",
                          f"PackingResult.objectives {got} != {want}",
                          {"kind": "pool", "desc": desc,
                           "pool": [[tag, rows, k]]})
    except ValueError as e:
        ctx.violation("from_packing_and_end_result-raises",
                      f"raised on a feasible packing: {e}",
                      {"kind": "pool", "desc": desc, "pool": [[tag, rows, k]],
                       "objective": key})
    ctx.sample({"instance": {k_: desc[k_] for k_ in ("W", "H", "items")},
                "pool_size": len(pool), "bin_counts": sorted(
                    {p[2] for p in pool}), "example": [tag, rows[:3]],
                "values": values[0]})


def threads_shard(ctx, args):
    """Every thread its own seven objective objects (their scratch arrays)
    and its own copies of the packings, one shared instance; the values must
    be the oracle's."""
    from vlib.threads import stress
    rng = ctx.rng
    _monitor(ctx)
    done = 0
    while done < args["n"]:
        desc = wb.gen_instance(rng, str(rng.choice(
            ["general", "twins", "count", "forcedrot"])))
        try:
            inst = wb.make_real(desc)
        except ValueError:
            continue
        pool = build_pool(ctx, desc, inst)[:10]
        if len(pool) < 2 or max(k for _t, _r, k in pool) < 2:
            continue
        keys = sorted(objective_classes())
        ref = []
        for _tag, rows, _k in pool:
            want = po.objective_values(desc, rows)
            ref.append([want[k] for k in keys])
        if any(abs(v) > INT64_MAX for r in ref for v in r):
            continue
        done += 1

        def jobs_for(tid, inst=inst, pool=pool, keys=keys):
            objs = [objective_classes()[k](inst) for k in keys]
            raw = [getattr(type(o), "_verif_orig_evaluate", None)
                   for o in objs]
            ys = [wb.to_packing(inst, rows, k) for _t, rows, k in pool]
            return [lambda y=y: [
                (r(o, y) if r is not None else o.evaluate(y))
                for o, r in zip(objs, raw)] for y in ys]
        ctx.count("concurrent_rounds")
        if not stress(ctx, "objective_evaluations", jobs_for, ref,
                      lambda a, b: list(a) == list(b), loops=30,
                      case={"kind": "pool", "desc": desc,
                            "pool": [[t, r, k] for t, r, k in pool]}):
            return


def run_shard(ctx, args):
    if args.get("mode") == "threads":
        return threads_shard(ctx, args)
    rng = ctx.rng
    classes = ["tiny", "general", "itembin", "forcedrot", "general", "dtype",
               "smallgrid", "smallgrid", "unit", "shipped", "hugebin",
               "count"]
    names = None
    for it in range(args["n"]):
        cls = classes[it % len(classes)]
        if cls == "shipped":
            if names is None:
                names = list(wb.shipped_names())
            while True:
                desc = wb.shipped_desc(str(rng.choice(names)))
                if wb.n_items(desc) <= 100:
                    break
        elif cls == "smallgrid":
            W = int(rng.integers(3, 13))
            H = int(rng.integers(3, 13))
            items = [[int(rng.integers(1, W + 1)), int(rng.integers(1, H + 1)),
                      int(rng.integers(1, 4))]
                     for _ in range(int(rng.integers(2, 7)))]
            desc = {"name": wb._name(rng), "W": W, "H": H, "items": items,
                    "cls": cls}
        else:
            desc = wb.gen_instance(rng, cls)
        try:
            one_instance(ctx, desc)
        except ValueError as e:
            if wb.outside_domain(desc):
                ctx.count("generator_rejected_by_ctor")
                continue
            raise


def replay(ctx, case):
    mon = _monitor(ctx)
    desc = case["desc"]
    inst = wb.make_real(desc)
    objs = {k: c(inst) for k, c in objective_classes().items()}
    vals = []
    if case.get("kind") == "objective":
        case = dict(case)
        case["pool"] = [["x", case["rows"], max(r[1] for r in case["rows"])]]
    for tag, rows, k in case.get("pool", []):
        y = wb.to_packing(inst, rows, k)
        ctx.case()
        want = po.objective_values(desc, rows)
        row = {}
        for key, o in objs.items():
            v = o.evaluate(y)
            row[key] = v
            lb, ub = o.lower_bound(), o.upper_bound()
            if v != want[key]:
                ctx.violation(f"objective-value-in-history:{key}",
                              f"{key}={v} want {want[key]}", case)
            if not lb <= v <= ub:
                ctx.violation(f"objective-outside-bounds:{key}",
                              f"{key}={v} not in [{lb},{ub}]", case)
            if o.to_bin_count(v) != k:
                ctx.violation(f"to-bin-count:{key}", "to_bin_count", case)
        vals.append((k, row))
    for (ka, ra), (kb, rb) in itertools.combinations(vals, 2):
        if ka != kb:
            for key in ra:
                if (ra[key] < rb[key]) != (ka < kb):
                    ctx.violation(f"dominance:{key}", "dominance", case)
    _ = mon
