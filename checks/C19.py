"""C19 - text forms of instances, solutions and result tables round-trip."""
from __future__ import annotations

import os

import numpy as np

from vlib.workloads import binpack as wb

PID = "C19"
RULE = ("from_X(to_X(obj)) for: Instance.to/from_compact_str and "
        "InstanceSpace.to_str/from_str (multi-digit, repeated, boundary "
        "values, one item, many items, repetition 1 vs > 1, dtype classes), "
        "PackingSpace, GamePlan/GamePlanSpace, OrderingSpace (random and "
        "extreme contents), packing_result.to_csv/from_csv and "
        "packing_statistics.to_csv/from_csv on 1..40 records built from real "
        "packings over the common default objective set, differing in "
        "algorithm, optimised objective, encoding present/absent and "
        "max_fes / max_time / goal_f present/absent in all mixtures. Oracle: "
        "field-by-field equality of EVERYTHING (data, dtype, name, counts, "
        "areas, lower bounds; end record, instance numbers, objectives, "
        "objective_bounds, bin_bounds as dictionaries - keys and values), "
        "not the classes' own ==. non-trivial = distinct tables with >= 2 "
        "optional-column patterns; distinct objects with a repetition > 1 "
        "or multi-digit value")
LEVEL_ASSUMPTIONS = ["field-by-field comparison in this file; CSV files are "
                     "written under .work and removed"]
REQUIRED = {"same_name_sibling_roundtrips": 100,
            "instance_roundtrips": 300, "packing_roundtrips": 100,
            "packing_variant_roundtrips": 300,
            "gameplan_roundtrips": 100, "ordering_roundtrips": 50,
            "result_tables": 40, "statistics_tables": 20,
            "tables_with_mixed_optional_columns": 15,
            "tables_with_runs_of_one_setup": 8,
            "records_with_a_reduced_bin_bound_selection": 20}


def plan(tier: str, seed: int):
    if tier == "quick":
        return [{"name": f"s{i}", "engine": "jit",
                 "args": {"n": 160, "tables": 14}, "timeout": 1500}
                for i in range(4)] + [
            # ... and once in an interpreter started with -O
            {"name": "opt", "engine": "opt",
             "args": {"n": 100, "tables": 8}, "timeout": 1500}]
    return [{"name": f"s{i}", "engine": "jit",
             "args": {"n": 12000, "tables": 1000}, "timeout": 3400}
            for i in range(14)] + [
        {"name": f"opt{i}", "engine": "opt",
         "args": {"n": 6000, "tables": 500}, "timeout": 3400}
        for i in range(2)]


def same(a, b, path=""):
    """None if equal field by field, else a description of the difference."""
    from collections.abc import Mapping
    if type(a) is not type(b) and not (
            isinstance(a, (int, float)) and isinstance(b, (int, float))
            and not isinstance(a, bool) and not isinstance(b, bool)):
        return f"{path}: type {type(a).__name__} vs {type(b).__name__}"
    if isinstance(a, Mapping):
        if sorted(a.keys()) != sorted(b.keys()):
            return (f"{path}: keys {sorted(a.keys())} vs "
                    f"{sorted(b.keys())}")
        for k in a:
            d = same(a[k], b[k], f"{path}[{k!r}]")
            if d:
                return d
        return None
    if isinstance(a, (list, tuple)):
        if len(a) != len(b):
            return f"{path}: length {len(a)} vs {len(b)}"
        for i, (x, y) in enumerate(zip(a, b)):
            d = same(x, y, f"{path}[{i}]")
            if d:
                return d
        return None
    if isinstance(a, (int, float, str, bool)) or a is None:
        if isinstance(a, float) and isinstance(b, int) or \
                isinstance(a, int) and isinstance(b, float):
            return None if a == b else f"{path}: {a!r} vs {b!r}"
        return None if a == b else f"{path}: {a!r} vs {b!r}"
    # data objects: compare all public attributes
    names = [n for n in dir(a) if not n.startswith("_")
             and not callable(getattr(a, n, None))]
    for n in names:
        d = same(getattr(a, n), getattr(b, n, "<missing>"), f"{path}.{n}")
        if d:
            return d
    return None


def all_diffs(a: dict, b: dict, root: str) -> list[str]:
    """All top-level / second-level field differences (not only the first)."""
    out = []
    for k in a:
        if k == "end_statistics":
            xa, xb = a[k], b[k]
            names = [n for n in dir(xa) if not n.startswith("_")
                     and not callable(getattr(xa, n, None))]
            for n in names:
                d = same(getattr(xa, n), getattr(xb, n, "<missing>"),
                         f"{root}['end_statistics'].{n}")
                if d:
                    out.append(d)
        else:
            d = same(a[k], b.get(k, "<missing>"), f"{root}[{k!r}]")
            if d:
                out.append(d)
    return out


def inst_fields(i):
    return {"name": i.name, "matrix": np.asarray(i).tolist(),
            "dtype": str(i.dtype), "n_items": i.n_items,
            "n_different_items": i.n_different_items,
            "total_item_area": i.total_item_area, "bin_width": i.bin_width,
            "bin_height": i.bin_height,
            "lower_bound_bins": i.lower_bound_bins}


def instance_case(ctx, desc, sibling=False):
    from moptipyapps.binpacking2d.instance import Instance
    from moptipyapps.binpacking2d.instgen.instance_space import InstanceSpace
    inst = wb.make_real(desc)
    case = {"kind": "instance", "desc": desc}
    ctx.case()
    ctx.count("instance_roundtrips")
    txt = inst.to_compact_str()
    back = Instance.from_compact_str(txt)
    d = same(inst_fields(inst), inst_fields(back), "instance")
    if d or back.to_compact_str() != txt:
        ctx.violation("compact-string-roundtrip",
                      f"Instance.from_compact_str(to_compact_str()) differs: "
                      f"{d}", case)
    if any(r[2] > 1 for r in desc["items"]) or max(
            max(r) for r in desc["items"]) > 9:
        ctx.nontrivial("inst", desc["W"], desc["H"], desc["items"])
    # history: a DIFFERENT instance with the same name, bin size and number
    # of item types is parsed right afterwards (what an instance space sees
    # all the time: all its candidates share name and bins)
    if not sibling and desc.get("cls") != "shipped":
        sib = dict(desc)
        sib["items"] = [list(r) for r in desc["items"]]
        j = int(ctx.rng.integers(len(sib["items"])))
        w, h, r = sib["items"][j]
        if ctx.rng.integers(2) or max(w, h) <= 1:
            sib["items"][j][2] = r + int(ctx.rng.integers(1, 4))
        elif w > 1 and w - 1 >= 1:
            sib["items"][j][0] = w - 1
        try:
            instance_case(ctx, sib, sibling=True)
            ctx.count("same_name_sibling_roundtrips")
        except ValueError:
            ctx.count("sibling_rejected_by_ctor")
    try:
        sp = InstanceSpace(inst)
    except ValueError:
        ctx.count("instance_space_rejected")
        return inst
    back2 = sp.from_str(sp.to_str([inst]))
    if not (isinstance(back2, list) and len(back2) == 1) or same(
            inst_fields(inst), inst_fields(back2[0]), "x"):
        ctx.violation("instance-space-roundtrip",
                      "InstanceSpace.from_str(to_str(x)) differs", case)
    ctx.count("instance_space_roundtrips")
    return inst


def packing_case(ctx, desc, inst):
    from moptipyapps.binpacking2d.encodings.ibl_encoding_2 import (
        ImprovedBottomLeftEncoding2,
    )
    from moptipyapps.binpacking2d.packing_space import PackingSpace
    sp = PackingSpace(inst)
    y = sp.create()
    perm = wb.gen_perm(ctx.rng, desc, "random")
    ImprovedBottomLeftEncoding2(inst).decode(wb.x_array(perm, inst), y)
    ctx.case()
    ctx.count("packing_roundtrips")
    back = sp.from_str(sp.to_str(y))
    ok = (wb.rows_of(back) == wb.rows_of(y) and back.dtype == y.dtype
          and back.n_bins == y.n_bins and type(back.n_bins) is int
          and back.instance is inst and sp.is_equal(back, y))
    if not ok:
        ctx.violation("packing-text-roundtrip",
                      "PackingSpace.from_str(to_str(y)) differs",
                      {"kind": "packing", "desc": desc, "perm": perm})
    # the same layout as other valid elements of the space: rows in another
    # order, bins renumbered, mirrored (each judged feasible by the oracle
    # first; a packing need not have come out of a decoder)
    from vlib.oracles import packing as po
    for tag, rows in wb.layout_variants(ctx.rng, desc, wb.rows_of(y)):
        nb = max(r[1] for r in rows)
        if po.infeasibility(desc, rows, nb) is not None:
            continue
        y2 = sp.create()
        y2[:, :] = np.array(rows, np.int64)
        y2.n_bins = nb
        ctx.case()
        ctx.count("packing_variant_roundtrips")
        try:
            b2 = sp.from_str(sp.to_str(y2))
            okv = (wb.rows_of(b2) == rows and b2.n_bins == nb
                   and sp.is_equal(b2, y2))
            why = "differs"
        except ValueError as e:
            okv, why = False, f"raises {e!r}"[:300]
        if not okv:
            ctx.violation(
                "packing-text-roundtrip",
                f"PackingSpace.from_str(to_str(y)) {why} for a feasible "
                f"packing ({tag} variant of a decoded one)",
                {"kind": "packing-rows", "desc": desc, "rows": rows,
                 "n_bins": nb})
            break
    return y


def gameplan_case(ctx):
    from checks import C07
    from moptipyapps.ttp.game_plan import GamePlan
    from moptipyapps.ttp.game_plan_space import GamePlanSpace
    rng = ctx.rng
    n = int(rng.choice([2, 4, 6, 10, 12]))
    rounds = int(rng.choice([1, 2, 3]))
    ll = rounds * n - 1
    inst = C07.make_instance(n, (rounds, 1, min(3, ll), 1, min(3, ll),
                                 min(1, ll), ll))
    sp = GamePlanSpace(inst)
    gp = GamePlan(inst)
    kind = int(rng.integers(4))
    D = (n - 1) * rounds
    if kind == 0:
        gp[:, :] = rng.integers(-n, n + 1, (D, n))
    elif kind == 1:
        gp.fill(int(rng.choice([-n, n, 0])))
    else:
        from vlib.oracles import ttp as ot
        gp[:, :] = np.array(ot.circle_method(n, rounds, True))
    ctx.case()
    ctx.count("gameplan_roundtrips")
    txt = sp.to_str(gp)
    case = {"kind": "gameplan", "n": n, "rounds": rounds,
            "plan": np.asarray(gp).tolist()}
    back = sp.from_str(txt)
    if not (np.array_equal(back, gp) and back.dtype == gp.dtype
            and back.instance is inst and sp.is_equal(back, gp)
            and str(back) == str(gp)):
        ctx.violation("gameplan-text-roundtrip",
                      "GamePlanSpace.from_str(str(plan)) differs", case)
    if n >= 10:
        ctx.nontrivial("gp", case["plan"])


def ordering_case(ctx):
    from moptipyapps.order1d.instance import Instance
    from moptipyapps.order1d.space import OrderingSpace
    rng = ctx.rng
    k = int(rng.integers(3, 14))
    vals = [int(v) for v in rng.integers(0, 30, k)]
    inst = Instance.from_sequence_and_distance(
        list(enumerate(vals)), lambda a, b: abs(a[1] - b[1]),
        int(rng.choice([1, 2, 3])), int(rng.choice([1, 2, 100])),
        ("pos", "val"), lambda o: (str(o[0]), str(o[1])))
    if inst.n < 2:
        return
    sp = OrderingSpace(inst)
    x = sp.create()
    x[:] = rng.permutation(inst.n)
    ctx.case()
    ctx.count("ordering_roundtrips")
    txt = sp.to_str(x)
    back = sp.from_str(txt)
    if not (np.array_equal(back, x) and back.dtype == x.dtype):
        ctx.violation("ordering-text-roundtrip",
                      "OrderingSpace.from_str(to_str(x)) differs",
                      {"kind": "ordering", "vals": vals,
                       "x": [int(v) for v in x]})
    if inst.n >= 10:
        ctx.nontrivial("ord", vals, [int(v) for v in x])


# -- result tables ----------------------------------------------------------
OBJ = ("binCount", "binCountAndEmpty", "binCountAndLastEmpty",
       "binCountAndLastSkyline", "binCountAndLastSmall",
       "binCountAndLowestSkyline", "binCountAndSmall")


def pr_fields(pr):
    er = pr.end_result
    return {
        "end_result": {k: getattr(er, k) for k in (
            "algorithm", "instance", "objective", "encoding", "rand_seed",
            "best_f", "last_improvement_fe", "last_improvement_time_millis",
            "total_fes", "total_time_millis", "goal_f", "max_fes",
            "max_time_millis")},
        "n_items": pr.n_items, "n_different_items": pr.n_different_items,
        "bin_width": pr.bin_width, "bin_height": pr.bin_height,
        "objectives": dict(pr.objectives),
        "objective_bounds": dict(pr.objective_bounds),
        "bin_bounds": dict(pr.bin_bounds)}


def ps_fields(ps):
    return {
        "end_statistics": ps.end_statistics,
        "n_items": ps.n_items, "n_different_items": ps.n_different_items,
        "bin_width": ps.bin_width, "bin_height": ps.bin_height,
        "objectives": dict(ps.objectives),
        "objective_bounds": dict(ps.objective_bounds),
        "bin_bounds": dict(ps.bin_bounds)}


def build_records(ctx, n_rec):
    """PackingResult records from real packings; returns (records, spec)."""
    from moptipy.evaluation.end_results import EndResult

    from moptipyapps.binpacking2d.encodings.ibl_encoding_1 import (
        ImprovedBottomLeftEncoding1,
    )
    from moptipyapps.binpacking2d.packing_result import (
        from_packing_and_end_result,
    )
    from moptipyapps.binpacking2d.packing_space import PackingSpace
    from vlib.oracles import packing as po
    rng = ctx.rng
    n_inst = int(rng.integers(1, 4))
    insts = []
    for _ in range(n_inst):
        while True:
            desc = wb.gen_instance(rng, str(rng.choice(
                ["tiny", "general", "itembin", "forcedrot"])))
            try:
                insts.append((desc, wb.make_real(desc)))
                break
            except ValueError:
                continue
    algos = ["rls", "fea1p1", "rs"][:int(rng.integers(1, 4))]
    single = bool(rng.integers(3) == 0)   # all records are runs of ONE setup
    if single:
        insts = insts[:1]
        algos = algos[:1]
    one_obj = str(rng.choice(OBJ))
    # optional-column policy of the table
    pol = {k: str(rng.choice(["all", "none", "mixed", "mixed-within"]))
           for k in ("max_fes", "max_time", "goal_f", "encoding")}
    if single:
        for k in ("max_fes", "max_time", "goal_f"):
            if rng.integers(2):
                pol[k] = "mixed-within"
    from moptipyapps.binpacking2d import packing_result as _prm
    DEFAULT_BB = dict(getattr(_prm, "_DEFAULT_BOUNDS", {}))  # noqa: N806
    mixed_bounds = len(DEFAULT_BB) >= 2 and rng.integers(3) == 0
    # within one (algo, inst, objective, encoding) group budgets are constant
    recs = []
    spec = []
    groups = {}
    for r in range(n_rec):
        desc, inst = insts[int(rng.integers(len(insts)))]
        algo = str(rng.choice(algos))
        obj = str(rng.choice(OBJ)) if rng.integers(3) else "binCount"
        if single:
            obj = one_obj

        def opt(key):
            if pol[key] == "all":
                return True
            if pol[key] == "none":
                return False
            return None     # mixed / mixed-within: decided per group first
        gk = (algo, inst.name, obj)
        if gk not in groups:
            g = {}
            for key in pol:
                o = opt(key)
                g[key] = bool(rng.integers(2)) if o is None else o
            g["enc"] = str(rng.choice(["ibf1", "ibf2"]))
            g["mf"] = int(rng.integers(200, 5000))
            g["mt"] = int(rng.integers(2000, 50000))
            g["goal"] = int(rng.integers(0, 3))
            groups[gk] = g
        g = dict(groups[gk])
        for key in pol:
            # runs of one setup may differ, too (e.g. a budget added later);
            # the statistics of such a group may not be constructible, the
            # result table must still round-trip
            if pol[key] == "mixed-within":
                g[key] = bool(rng.integers(2))
        if pol["encoding"] == "mixed-within":
            # the encoding is part of the setup: keep it per group
            g["encoding"] = groups[gk]["encoding"]
        y = PackingSpace(inst).create()
        perm = wb.gen_perm(rng, desc, "random")
        ImprovedBottomLeftEncoding1(inst).decode(wb.x_array(perm, inst), y)
        vals = po.objective_values(desc, wb.rows_of(y))
        tf = int(rng.integers(1, 200))
        li = int(rng.integers(1, tf + 1))
        tt = int(rng.integers(0, 1500))
        lt = int(rng.integers(0, tt + 1))
        sp = dict(algorithm=algo, instance=inst.name, objective=obj,
                  encoding=g["enc"] if g["encoding"] else None,
                  rand_seed=int(rng.integers(0, 1 << 62)), best_f=vals[obj],
                  last_improvement_fe=li, last_improvement_time_millis=lt,
                  total_fes=tf, total_time_millis=tt,
                  goal_f=g["goal"] if g["goal_f"] else None,
                  max_fes=g["mf"] if g["max_fes"] else None,
                  max_time_millis=g["mt"] if g["max_time"] else None)
        er = EndResult(**sp)
        # which bin bounds a record carries is the caller's choice (the
        # public `bin_bounds` argument): in every third table the records do
        # not all carry the same ones (results gathered with and without the
        # slow bound, merged into one table)
        bb = None
        if mixed_bounds and rng.integers(2):
            keys = sorted(DEFAULT_BB)
            bb = sorted(str(k) for k in rng.choice(
                keys, int(rng.integers(1, len(keys))), replace=False))
        if bb is None:
            recs.append(from_packing_and_end_result(er, y))
        else:
            recs.append(from_packing_and_end_result(
                er, y, bin_bounds={k: DEFAULT_BB[k] for k in bb}))
            ctx.count("records_with_a_reduced_bin_bound_selection")
        spec.append({"desc": desc, "perm": perm, "er": sp, "bb": bb})
    pats = {(s["er"]["encoding"] is None, s["er"]["goal_f"] is None,
             s["er"]["max_fes"] is None, s["er"]["max_time_millis"] is None)
            for s in spec}
    return recs, spec, len(pats), single


def table_case(ctx, n_rec):
    from moptipyapps.binpacking2d import packing_result as prm
    from moptipyapps.binpacking2d import packing_statistics as psm
    home = os.environ.get("VERIF_HOME", "/verif")
    d = os.path.join(home, ".work")
    os.makedirs(d, exist_ok=True)
    recs, spec, npat, single = build_records(ctx, n_rec)
    if single:
        ctx.count("tables_with_runs_of_one_setup")
    case = {"kind": "table", "records": spec}
    path = os.path.join(d, f"c19-{os.getpid()}-r.txt")
    ctx.case()
    ctx.count("result_tables")
    if npat >= 2:
        ctx.count("tables_with_mixed_optional_columns")
        ctx.nontrivial("table", [s["er"] for s in spec])
    try:
        prm.to_csv(recs, path)
        back = list(prm.from_csv(path))
        want = sorted(recs)
        if len(back) != len(want):
            ctx.violation("result-csv-record-count",
                          f"{len(back)} vs {len(want)}", case)
        else:
            seen = set()
            for a, b in zip(want, back):
                for dd in all_diffs(pr_fields(a), pr_fields(b), "result"):
                    m = result_mech(dd)
                    if m not in seen:
                        seen.add(m)
                        ctx.violation(
                            m, f"packing_result CSV round trip: {dd}", case)
    except Exception as e:  # noqa
        ctx.violation(exc_mech("result-csv", e),
                      f"packing_result to_csv/from_csv raised "
                      f"{type(e).__name__}: {e}", case)
    finally:
        if os.path.exists(path):
            os.remove(path)
    if ctx.rng.integers(2):
        scoped_roundtrip(ctx, prm, recs, pr_fields, "result", case)
    # statistics
    stats = []
    try:
        psm.from_packing_results(recs, stats.append)
    except ValueError as e:
        ctx.count("statistics_not_constructible")
        ctx.note(f"from_packing_results refused a record set: {str(e)[:120]}")
        return
    path = os.path.join(d, f"c19-{os.getpid()}-s.txt")
    ctx.case()
    ctx.count("statistics_tables")
    try:
        psm.to_csv(stats, path)
        back = list(psm.from_csv(path))
        want = sorted(stats)
        if len(back) != len(want):
            ctx.violation("statistics-csv-record-count",
                          f"{len(back)} vs {len(want)}", case)
        else:
            seen = set()
            for a, b in zip(want, back):
                for dd in all_diffs(ps_fields(a), ps_fields(b),
                                    "statistics"):
                    m = result_mech(dd).replace("result-", "statistics-")
                    if m not in seen:
                        seen.add(m)
                        ctx.violation(
                            m, f"packing_statistics CSV round trip: {dd}",
                            case)
    except Exception as e:  # noqa
        ctx.violation(exc_mech("statistics-csv", e),
                      f"packing_statistics to_csv/from_csv raised "
                      f"{type(e).__name__}: {e}", case)
    finally:
        if os.path.exists(path):
            os.remove(path)
    if ctx.rng.integers(2):
        scoped_roundtrip(ctx, psm, stats, ps_fields, "statistics", case)


def scoped_roundtrip(ctx, mod, data, fields, what, case):
    """The same table written with a column scope (the writers' public
    `scope` argument, for embedding into a bigger table) and read back with
    csv_select_scope."""
    from pycommons.io.csv import csv_read, csv_select_scope, csv_write
    scope = str(ctx.rng.choice(["pack", "a.b", "x"]))
    ctx.count(f"scoped_{what}_tables")
    try:
        text = list(csv_write(
            data=sorted(data), setup=mod.CsvWriter(scope).setup,
            column_titles=mod.CsvWriter.get_column_titles,
            get_row=mod.CsvWriter.get_row,
            header_comments=mod.CsvWriter.get_header_comments,
            footer_comments=mod.CsvWriter.get_footer_comments,
            footer_bottom_comments=mod.CsvWriter.get_footer_bottom_comments))
        back = sorted(csv_read(
            rows=text,
            setup=lambda cols: csv_select_scope(mod.CsvReader, cols, scope),
            parse_row=mod.CsvReader.parse_row))
        want = sorted(data)
        if len(back) != len(want):
            ctx.violation(f"{what}-csv-record-count",
                          f"scope {scope!r}: {len(back)} vs {len(want)}",
                          case)
            return
        seen = set()
        for a, b in zip(want, back):
            for dd in all_diffs(fields(a), fields(b), what):
                m = result_mech(dd).replace("result-", f"{what}-")
                if m not in seen:
                    seen.add(m)
                    ctx.violation(m, f"{what} CSV round trip with column "
                                  f"scope {scope!r}: {dd}", case)
    except Exception as e:  # noqa
        ctx.violation(exc_mech(f"{what}-csv", e),
                      f"{what} table with column scope {scope!r}: "
                      f"{type(e).__name__}: {e}", case)


def result_mech(dd: str) -> str:
    if "bin_bounds" in dd and "keys" in dd:
        return "result-csv-bin-bounds-keys-differ"
    if "['end_statistics']" in dd and (
            ".max_time_millis:" in dd or ".max_fes:" in dd) and \
            "type int vs SampleStatistics" in dd:
        # moptipy's own end_statistics CSV reader (dependency) returns a
        # one-value SampleStatistics where the writer was given an int
        return "dep-moptipy-end-statistics-budget-int-read-as-statistics"
    field = dd.split(":")[0]
    import re
    field = re.sub(r"\[[^\]]*\]", "[]", field)
    return "result-csv-field-differs:" + field[:60]


def exc_mech(prefix: str, e: BaseException) -> str:
    import re
    import traceback
    tb = traceback.extract_tb(e.__traceback__)
    where = "?"
    for fr in reversed(tb):
        if "/moptipy/" in fr.filename or "/pycommons/" in fr.filename \
                or "moptipyapps" in fr.filename:
            fn = fr.filename.split("site-packages/")[-1]
            if "moptipyapps/" in fn:
                fn = "moptipyapps/" + fn.split("moptipyapps/")[-1]
            where = fn + ":" + fr.name
            break
    msg = re.sub(r"\d+", "#", str(e))[:60]
    if prefix == "statistics-csv" and isinstance(e, ValueError) \
            and "'None'" in str(e) and "pycommons/io/csv.py" in where:
        # moptipy's end_statistics CSV writer (dependency) writes the
        # literal 'None' for successN when only some records have a goal
        return "dep-moptipy-end-statistics-writes-literal-None"
    return f"{prefix}-raises:{type(e).__name__}@{where}:{msg}"


def run_shard(ctx, args):
    rng = ctx.rng
    classes = ["tiny", "itembin", "forcedrot", "dtype", "general", "unit",
               "general"]
    for it in range(args["n"]):
        cls = classes[it % len(classes)]
        desc = wb.gen_instance(rng, cls)
        try:
            inst = instance_case(ctx, desc)
        except ValueError as e:
            if wb.outside_domain(desc):
                continue
            raise
        if it % 3 == 0 and wb.n_items(desc) <= 130:
            packing_case(ctx, desc, inst)
        if it % 2 == 0:
            gameplan_case(ctx)
        if it % 3 == 1:
            ordering_case(ctx)
        if it % 50 == 0:
            ctx.sample({"instance_compact": inst.to_compact_str()[:120]})
    names = wb.shipped_names()
    for nm in rng.choice(names, 12, replace=False):
        instance_case(ctx, wb.shipped_desc(str(nm)))
    for t in range(args["tables"]):
        n_rec = int(rng.choice([1, 2, 3, 5, 8, 13, 25, 40]))
        table_case(ctx, n_rec)
        if t == 0:
            ctx.sample({"table": f"{n_rec} records over default objectives "
                        "with mixed optional columns"})


def replay(ctx, case):
    from moptipy.evaluation.end_results import EndResult

    from moptipyapps.binpacking2d import packing_result as prm
    k = case["kind"]
    if k == "instance":
        instance_case(ctx, case["desc"])
    elif k == "packing-rows":
        from moptipyapps.binpacking2d.packing_space import PackingSpace
        inst = wb.make_real(case["desc"])
        sp = PackingSpace(inst)
        y2 = sp.create()
        y2[:, :] = np.array(case["rows"], np.int64)
        y2.n_bins = case["n_bins"]
        ctx.case()
        try:
            b2 = sp.from_str(sp.to_str(y2))
            okv = wb.rows_of(b2) == case["rows"] and sp.is_equal(b2, y2)
            why = "differs"
        except ValueError as e:
            okv, why = False, f"raises {e!r}"[:300]
        if not okv:
            ctx.violation("packing-text-roundtrip",
                          f"PackingSpace.from_str(to_str(y)) {why} for a "
                          f"feasible packing", case)
    elif k == "table":
        from moptipyapps.binpacking2d.encodings.ibl_encoding_1 import (
            ImprovedBottomLeftEncoding1,
        )
        from moptipyapps.binpacking2d.packing_space import PackingSpace
        recs = []
        cache = {}
        for s in case["records"]:
            key = repr(s["desc"])
            if key not in cache:
                cache[key] = wb.make_real(s["desc"])
            inst = cache[key]
            y = PackingSpace(inst).create()
            ImprovedBottomLeftEncoding1(inst).decode(
                wb.x_array(s["perm"], inst), y)
            if s.get("bb"):
                dbb = dict(prm._DEFAULT_BOUNDS)
                recs.append(prm.from_packing_and_end_result(
                    EndResult(**s["er"]), y,
                    bin_bounds={k: dbb[k] for k in s["bb"]}))
            else:
                recs.append(prm.from_packing_and_end_result(
                    EndResult(**s["er"]), y))
        home = os.environ.get("VERIF_HOME", "/verif")
        path = os.path.join(home, ".work", f"c19-replay-{os.getpid()}.txt")
        os.makedirs(os.path.dirname(path), exist_ok=True)
        ctx.case()
        try:
            prm.to_csv(recs, path)
            back = list(prm.from_csv(path))
            for a, b in zip(sorted(recs), back):
                dd = same(pr_fields(a), pr_fields(b), "result")
                if dd:
                    ctx.violation(result_mech(dd), dd, case)
                    break
        except Exception as e:  # noqa
            ctx.violation(exc_mech("result-csv", e), str(e), case)
        finally:
            if os.path.exists(path):
                os.remove(path)
    else:
        ctx.case()
        ctx.note("replay of this kind re-runs the generator only")
