"""C14 - decoders follow the documented bottom-left rule, statelessly."""
from __future__ import annotations

import numpy as np

from vlib.oracles import ibl
from vlib.workloads import binpack as wb

PID = "C14"
RULE = ("histories: one encoder object and one destination packing reused "
        "for 5-40 different signed permutations, destination overwritten "
        "between calls with garbage / max / min values / a previous decoding "
        "/ plausible stale rows, plus a second encoder object interleaved; "
        "each result compared row by row and on n_bins with an executable "
        "model of the documented procedure (vlib/oracles/ibl.py). "
        "non-trivial = distinct (instance, permutation, encoding) in which "
        "the model saw >= 1 item making both a down and a left move and "
        ">= 2 bins")
LEVEL_ASSUMPTIONS = [
    "model vlib/oracles/ibl.py written from the module documentation "
    "(validated on the documented Liu-Teng example at start-up)"]
REQUIRED = {"model_comparisons": 1000, "history_dirty_dest": 500,
            "model_down_and_left": 200, "model_earlier_bin_used": 50,
            "model_forced_rotation": 20}


def plan(tier: str, seed: int):
    if tier == "quick":
        return [{"name": f"s{i}", "engine": "jit", "args": {"n": 200},
                 "timeout": 900} for i in range(4)]
    return [{"name": f"s{i}", "engine": "jit", "args": {"n": 1500},
             "timeout": 3000} for i in range(16)]


def _enc(inst, e):
    from moptipyapps.binpacking2d.encodings.ibl_encoding_1 import (
        ImprovedBottomLeftEncoding1,
    )
    from moptipyapps.binpacking2d.encodings.ibl_encoding_2 import (
        ImprovedBottomLeftEncoding2,
    )
    return (ImprovedBottomLeftEncoding1 if e == 1
            else ImprovedBottomLeftEncoding2)(inst)


def dirty(rng, y, inst, mode: str, prev_rows):
    info = np.iinfo(inst.dtype)
    if mode == "max":
        y.fill(info.max)
    elif mode == "min":
        y.fill(info.min)
    elif mode == "zero":
        y.fill(0)
    elif mode == "random":
        y[:, :] = rng.integers(max(info.min, -200), min(info.max, 200) + 1,
                               y.shape)
    elif mode == "plausible":
        # stale rows that look like items sitting in bins 1..3
        n = y.shape[0]
        y[:, 0] = rng.integers(1, inst.n_different_items + 1, n)
        y[:, 1] = rng.integers(1, min(4, n + 1), n)
        W = min(int(inst.bin_width), info.max // 2)
        H = min(int(inst.bin_height), info.max // 2)
        y[:, 2] = rng.integers(0, W, n)
        y[:, 3] = rng.integers(0, H, n)
        y[:, 4] = y[:, 2] + 1
        y[:, 5] = y[:, 3] + 1
    elif mode == "keep":
        pass
    y.n_bins = int(rng.integers(-3, 200))


MODES = ("max", "min", "zero", "random", "plausible", "keep")


def compare(ctx, desc, inst, enc, e, perm, y, hist):
    ctx.case()
    enc.decode(wb.x_array(perm, inst), y)
    rows = wb.rows_of(y)
    mrows, mk, st = ibl.decode(desc["W"], desc["H"], desc["items"], perm,
                               first_fit=(e == 2))
    ctx.count("model_comparisons")
    for k, v in st.items():
        if k != "max_moves":
            ctx.count("model_" + k, v)
        else:
            ctx.seen_max("model_max_moves_per_item", v)
    if st.get("down_and_left", 0) >= 1 and mk >= 2:
        ctx.nontrivial(desc["W"], desc["H"], desc["items"], perm, e)
    if rows != mrows or y.n_bins != mk or type(y.n_bins) is not int:
        diff = next((i for i, (a, b) in enumerate(zip(rows, mrows))
                     if a != b), None)
        # is it history dependence?  decode with a fresh encoder + packing
        from moptipyapps.binpacking2d.packing import Packing
        y2 = Packing(inst)
        y2.fill(0)
        _enc(inst, e).decode(wb.x_array(perm, inst), y2)
        fresh_same = wb.rows_of(y2) == rows and y2.n_bins == y.n_bins
        mech = ("decode-differs-from-documented-rule" if fresh_same
                else "decode-depends-on-history")
        ctx.violation(
            f"{mech}:enc{e}",
            f"enc{e}: row {diff}: got "
            f"{rows[diff] if diff is not None else None} model "
            f"{mrows[diff] if diff is not None else None}; n_bins "
            f"{y.n_bins} vs {mk}; fresh encoder gives the same: {fresh_same}",
            {"kind": "history", "desc": desc, "enc": e, "history": hist})
        return False
    return True


def run_history(ctx, desc, e, steps):
    """steps: list of (perm, mode, which_encoder, which_dest)."""
    from moptipyapps.binpacking2d.packing import Packing
    rng = ctx.rng
    inst = wb.make_real(desc)
    encs = [_enc(inst, e), _enc(inst, e)]
    dests = [Packing(inst), Packing(inst)]
    for d in dests:
        d.fill(0)
    hist = []
    for perm, mode, we, wd in steps:
        hist.append([perm, mode, we, wd])
        # garbage is a function of the step only, so a replay is exact
        drng = np.random.default_rng([len(hist), sum(abs(v) for v in perm)])
        dirty(drng, dests[wd], inst, mode, None)
        if mode != "zero":
            ctx.count("history_dirty_dest")
        if we == 1:
            ctx.count("history_second_encoder")
        if not compare(ctx, desc, inst, encs[we], e, perm, dests[wd], hist):
            return False
    return True


def gen_steps(rng, desc, length):
    steps = []
    for _ in range(length):
        perm = wb.gen_perm(rng, desc, str(rng.choice(
            list(wb.PERM_KINDS) + ["random"] * 6)))
        steps.append((perm, str(rng.choice(MODES)),
                      int(rng.integers(0, 4) == 0),
                      int(rng.integers(0, 3) == 0)))
    return steps


def run_shard(ctx, args):
    rng = ctx.rng
    classes = ["tiny", "general", "forcedrot", "general", "itembin",
               "smallgrid", "smallgrid", "dtype", "shipped", "unit"]
    names = None
    for it in range(args["n"]):
        cls = classes[it % len(classes)]
        if cls == "shipped":
            if names is None:
                names = list(wb.shipped_names())
            while True:
                desc = wb.shipped_desc(str(rng.choice(names)))
                if wb.n_items(desc) <= 100:
                    break
        elif cls == "smallgrid":
            # small grids make ties and supporters frequent
            W = int(rng.integers(4, 13))
            H = int(rng.integers(4, 13))
            items = [[int(rng.integers(1, max(2, W // 2 + 1))),
                      int(rng.integers(1, max(2, H // 2 + 1))),
                      int(rng.integers(1, 6))]
                     for _ in range(int(rng.integers(2, 7)))]
            desc = {"name": wb._name(rng), "W": W, "H": H, "items": items,
                    "cls": cls}
        else:
            desc = wb.gen_instance(rng, cls)
        ctx.count(f"inst_cls[{cls}]")
        try:
            for e in (1, 2):
                steps = gen_steps(rng, desc, int(rng.integers(5, 41))
                                  if ctx.tier == "thorough"
                                  else int(rng.integers(5, 16)))
                ok = run_history(ctx, desc, e, steps)
                ctx.count("histories")
                if ok and it % 25 == 0 and e == 2:
                    ctx.sample({"instance": {k: desc[k] for k in
                                             ("W", "H", "items")},
                                "encoding": e, "history_len": len(steps),
                                "first_steps": [[s[0][:12], s[1], s[2], s[3]]
                                                for s in steps[:3]]})
        except ValueError as ex:
            if "does not fit" in str(ex) or "must be in" in str(ex):
                ctx.count("generator_rejected_by_ctor")
                continue
            raise


def replay(ctx, case):
    steps = [(p, m, we, wd) for p, m, we, wd in case["history"]]
    run_history(ctx, case["desc"], case["enc"], steps)
