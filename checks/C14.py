"""C14 - decoders follow the documented bottom-left rule, statelessly."""
from __future__ import annotations

import numpy as np

from vlib.oracles import ibl
from vlib.workloads import binpack as wb

PID = "C14"
RULE = ("histories: one encoder object and one destination packing reused "
        "for 5-40 different signed permutations, destination overwritten "
        "between calls with garbage / max / min values / a previous decoding "
        "/ plausible stale rows, plus a second encoder object interleaved; "
        "each result compared row by row and on n_bins with an executable "
        "model of the documented procedure (vlib/oracles/ibl.py). "
        "non-trivial = distinct (instance, permutation, encoding) in which "
        "the model saw >= 1 item making both a down and a left move and "
        ">= 2 bins")
LEVEL_ASSUMPTIONS = [
    "model vlib/oracles/ibl.py written from the module documentation "
    "(validated on the documented Liu-Teng example at start-up)"]
REQUIRED = {"manybins_decodes": 10, "concurrent_model_decodes": 20000, "model_comparisons": 1000, "history_dirty_dest": 500,
            "pair_history_decodes": 20000, "pair_instances": 8,
            "hugearea_decodes": 20, "staircase_decodes": 18,
            "model_down_and_left": 200, "model_earlier_bin_used": 50,
            "model_forced_rotation": 20}


def plan(tier: str, seed: int):
    if tier == "quick":
        return [{"name": f"s{i}", "engine": "jit", "args": {"n": 200},
                 "timeout": 900} for i in range(4)] + [
            {"name": f"p{i}", "engine": "jit", "args": {
                "mode": "pairs", "n": 6, "budget": 40000},
             "timeout": 900} for i in range(4)] + [
            {"name": "hugearea", "engine": "jit",
             "args": {"mode": "hugearea", "steps": 12}, "timeout": 900},
            {"name": "threads", "engine": "jit", "timeout": 900,
             "args": {"mode": "threads", "n": 6}},
            {"name": "manybins", "engine": "jit", "timeout": 900,
             "args": {"mode": "manybins",
                      "sizes": [130, 300, 1100, 4200, 10400]}}]
    return [{"name": f"s{i}", "engine": "jit", "args": {"n": 1500},
             "timeout": 3000} for i in range(12)] + [
        {"name": f"p{i}", "engine": "jit", "args": {
            "mode": "pairs", "n": 60, "budget": 400000},
         "timeout": 3000} for i in range(12)] + [
        {"name": f"hugearea{i}", "engine": "jit",
         "args": {"mode": "hugearea", "steps": 40}, "timeout": 3000}
        for i in range(4)] + [
        {"name": f"threads{i}", "engine": "jit", "timeout": 3000,
         "args": {"mode": "threads", "n": 40}} for i in range(2)] + [
        {"name": f"manybins{i}", "engine": "jit", "timeout": 3000,
         "args": {"mode": "manybins",
                  "sizes": [130, 260, 520, 1100, 2100, 4200, 10400, 20000,
                            33000]}} for i in range(2)]


def _enc(inst, e):
    from moptipyapps.binpacking2d.encodings.ibl_encoding_1 import (
        ImprovedBottomLeftEncoding1,
    )
    from moptipyapps.binpacking2d.encodings.ibl_encoding_2 import (
        ImprovedBottomLeftEncoding2,
    )
    return (ImprovedBottomLeftEncoding1 if e == 1
            else ImprovedBottomLeftEncoding2)(inst)


def dirty(rng, y, inst, mode: str, prev_rows):
    info = np.iinfo(inst.dtype)
    if mode == "max":
        y.fill(info.max)
    elif mode == "min":
        y.fill(info.min)
    elif mode == "zero":
        y.fill(0)
    elif mode == "random":
        y[:, :] = rng.integers(max(info.min, -200), min(info.max, 200) + 1,
                               y.shape)
    elif mode == "plausible":
        # stale rows that look like items sitting in bins 1..3
        n = y.shape[0]
        y[:, 0] = rng.integers(1, inst.n_different_items + 1, n)
        y[:, 1] = rng.integers(1, min(4, n + 1), n)
        W = min(int(inst.bin_width), info.max // 2)
        H = min(int(inst.bin_height), info.max // 2)
        y[:, 2] = rng.integers(0, W, n)
        y[:, 3] = rng.integers(0, H, n)
        y[:, 4] = y[:, 2] + 1
        y[:, 5] = y[:, 3] + 1
    elif mode == "keep":
        pass
    y.n_bins = int(rng.integers(-3, 200))


MODES = ("max", "min", "zero", "random", "plausible", "keep")


def compare(ctx, desc, inst, enc, e, perm, y, hist):
    ctx.case()
    enc.decode(wb.x_buffer(perm, inst), y)
    rows = wb.rows_of(y)
    mrows, mk, st = ibl.decode(desc["W"], desc["H"], desc["items"], perm,
                               first_fit=(e == 2))
    ctx.count("model_comparisons")
    for k, v in st.items():
        if k != "max_moves":
            ctx.count("model_" + k, v)
        else:
            ctx.seen_max("model_max_moves_per_item", v)
    if st.get("down_and_left", 0) >= 1 and mk >= 2:
        ctx.nontrivial(desc["W"], desc["H"], desc["items"], perm, e)
    if rows != mrows or y.n_bins != mk or type(y.n_bins) is not int:
        diff = next((i for i, (a, b) in enumerate(zip(rows, mrows))
                     if a != b), None)
        # is it history dependence?  decode with a fresh encoder + packing
        from moptipyapps.binpacking2d.packing import Packing
        y2 = Packing(inst)
        y2.fill(0)
        _enc(inst, e).decode(wb.x_array(perm, inst), y2)
        fresh_same = wb.rows_of(y2) == rows and y2.n_bins == y.n_bins
        mech = ("decode-differs-from-documented-rule" if fresh_same
                else "decode-depends-on-history")
        ctx.violation(
            f"{mech}:enc{e}",
            f"enc{e}: row {diff}: got "
            f"{rows[diff] if diff is not None else None} model "
            f"{mrows[diff] if diff is not None else None}; n_bins "
            f"{y.n_bins} vs {mk}; fresh encoder gives the same: {fresh_same}",
            {"kind": "history", "desc": desc, "enc": e, "history": hist})
        return False
    return True


def run_history(ctx, desc, e, steps):
    """steps: list of (perm, mode, which_encoder, which_dest)."""
    from moptipyapps.binpacking2d.packing import Packing
    rng = ctx.rng
    inst = wb.make_real(desc)
    encs = [_enc(inst, e), _enc(inst, e)]
    dests = [Packing(inst), Packing(inst)]
    for d in dests:
        d.fill(0)
    hist = []
    for perm, mode, we, wd in steps:
        hist.append([perm, mode, we, wd])
        # garbage is a function of the step only, so a replay is exact
        drng = np.random.default_rng([len(hist), sum(abs(v) for v in perm)])
        dirty(drng, dests[wd], inst, mode, None)
        if mode != "zero":
            ctx.count("history_dirty_dest")
        if we == 1:
            ctx.count("history_second_encoder")
        if not compare(ctx, desc, inst, encs[we], e, perm, dests[wd], hist):
            return False
    return True


def gen_steps(rng, desc, length):
    steps = []
    for _ in range(length):
        perm = wb.gen_perm(rng, desc, str(rng.choice(
            list(wb.PERM_KINDS) + ["random"] * 6 + ["runs"] * 3)))
        steps.append((perm, str(rng.choice(MODES)),
                      int(rng.integers(0, 4) == 0),
                      int(rng.integers(0, 3) == 0)))
    return steps


def hugearea_shard(ctx, args):
    """One instance whose bin AREA does not fit 64 bits (each side is within
    the accepted 10^12): building it is pseudo-polynomial in the shorter
    side (tens of seconds), so there is exactly one per run."""
    rng = ctx.rng
    W = 10 ** 12
    H = int(rng.choice([9_300_000, 10 ** 7]))
    if rng.integers(2):
        W, H = H, W
    items = [[int(rng.integers(1, 6)), int(rng.integers(1, 6)),
              int(rng.integers(1, 3))] for _ in range(3)]
    items.append([int(rng.integers(10 ** 6, 9 * 10 ** 6)), 3, 1])
    desc = {"name": wb._name(rng), "W": W, "H": H, "items": items,
            "cls": "hugearea"}
    ctx.count("inst_cls[hugearea]")
    for e in (1, 2):
        steps = gen_steps(rng, desc, args.get("steps", 12))
        run_history(ctx, desc, e, steps)
        ctx.count("histories")
        ctx.count("hugearea_decodes", len(steps))
    # long move chains: columns 1 x k with tops rising towards the right
    # wall, then one more 1 x 1 item that walks down the staircase (two moves
    # per step - several hundred moves for a single item)
    for w in (12, 130, int(rng.choice([520, 600]))):
        items = [[1, k, 2 if k == 1 else 1] for k in range(1, w + 1)]
        sd = {"name": wb._name(rng), "W": w, "H": w + 1, "items": items,
              "cls": "staircase"}
        perm = list(range(1, w + 1)) + [1]
        ctx.count("inst_cls[staircase]")
        for e in (1, 2):
            run_history(ctx, sd, e, [(perm, "zero", 0, 0),
                                     (perm[::-1], "keep", 0, 0),
                                     (perm, "keep", 0, 0)])
            ctx.count("staircase_decodes", 3)


def manybins_shard(ctx, args):
    """Thousands of bins open at once: one partly filled first bin, then N
    objects that fill a bin each, then small objects whose prescribed place
    is beside the first object (encoding 2 tries all open bins starting
    with the first; encoding 1 only the last). The model is too slow for N
    bins, so the expectation is derived: the blockers fill bins 2..N+1 in
    order, and the rows of the other objects are the model's rows for the
    instance WITHOUT the blockers (encoding 2), shifted for encoding 1."""
    from moptipyapps.binpacking2d.instance import Instance
    from moptipyapps.binpacking2d.packing import Packing
    rng = ctx.rng
    todo = args["sizes"]
    if "case" in args:
        todo = [args["case"]["N"]]
    for N in todo:
        W = int(rng.integers(8, 14))
        H = int(rng.integers(8, 14))
        a = int(rng.integers(W // 2 + 1, W - 2))      # first object: a x H
        sw = int(rng.integers(1, W - a + 1))
        sh = int(rng.integers(1, H // 2 + 1))
        k = int(rng.integers(2, 4))
        if "case" in args:
            c = args["case"]
            W, H, a, sw, sh, k = (c[q] for q in ("W", "H", "a", "sw", "sh",
                                                 "k"))
        # item 1: a x H (once), item 2: W x H (N times), item 3: sw x sh
        inst = Instance(wb._name(rng), W, H,
                        [[a, H, 1], [W, H, N], [sw, sh, k]])
        perm = [1] + [2] * N + [3] * k
        small = {"name": "r", "W": W, "H": H,
                 "items": [[a, H, 1], [sw, sh, k]], "cls": "manybins"}
        for e in (1, 2):
            y = Packing(inst)
            y.fill(-1)
            ctx.case()
            _enc(inst, e).decode(wb.x_array(perm, inst), y)
            rows = wb.rows_of(y)
            ctx.count("manybins_decodes")
            ctx.seen_max("max_open_bins", N + 1)
            if e == 2:
                mrows, mk, _st = ibl.decode(W, H, small["items"],
                                            [1] + [2] * k, first_fit=True)
                want = [mrows[0]] + [[2, b, 0, 0, W, H]
                                     for b in range(2, N + 2)] + [
                    [3, r[1], *r[2:]] for r in mrows[1:]]
                wk = N + 1 if mk == 1 else None
            else:
                mrows, mk, _st = ibl.decode(W, H, [[sw, sh, k]], [1] * k,
                                            first_fit=False)
                # encoding 1 only looks at the last bin, which is full
                want = [[1, 1, 0, 0, a, H]] + [[2, b, 0, 0, W, H]
                                               for b in range(2, N + 2)] + [
                    [3, r[1] + N + 1, *r[2:]] for r in mrows]
                wk = N + 1 + mk
            if wk is None:
                ctx.count("manybins_expectation_not_derivable")
                continue
            if rows != want or y.n_bins != wk:
                diff = next((i for i, (p, q) in enumerate(zip(rows, want))
                             if p != q), None)
                ctx.violation(
                    f"decode-differs-from-documented-rule:enc{e}",
                    f"enc{e} with {N + 1} open bins: row {diff} is "
                    f"{rows[diff] if diff is not None else None}, the "
                    f"documented rule gives "
                    f"{want[diff] if diff is not None else None}; n_bins "
                    f"{y.n_bins} vs {wk}",
                    {"kind": "manybins", "W": W, "H": H, "a": a, "sw": sw,
                     "sh": sh, "k": k, "N": N, "enc": e})


def threads_shard(ctx, args):
    """Each thread owns its encoders and destination packings; the threads
    decode permutations of one instance, and of a sibling instance with the
    same number of items and storage type, at the same time (the kernels are
    nogil). Every result is compared with the model's."""
    from moptipyapps.binpacking2d.packing import Packing

    from vlib.threads import stress
    rng = ctx.rng
    done = 0
    while done < args["n"]:
        desc = wb.gen_instance(rng, str(rng.choice(["general", "twins"])))
        # the sibling: same item counts, other sizes within the same bin
        sib = {**desc, "name": desc["name"] + "b", "items": [
            [max(1, it[0] - int(rng.integers(0, 2))),
             max(1, it[1] - int(rng.integers(0, 2))), it[2]]
            for it in desc["items"]]}
        try:
            insts = [wb.make_real(desc), wb.make_real(sib)]
        except ValueError:
            continue
        if insts[0].dtype != insts[1].dtype or wb.n_items(desc) > 40:
            continue
        descs = [desc, sib]
        jobs_def = []
        for which in (0, 1):
            for _ in range(4):
                perm = wb.gen_perm(rng, descs[which], "random")
                for e in (1, 2):
                    jobs_def.append((which, e, perm))
        ref = []
        for which, e, perm in jobs_def:
            d = descs[which]
            mrows, mk, _st = ibl.decode(d["W"], d["H"], d["items"], perm,
                                        first_fit=(e == 2))
            ref.append((mrows, mk))
        if max(r[1] for r in ref) < 2:
            continue
        done += 1

        def jobs_for(tid, insts=insts, jobs_def=jobs_def):
            encs = {(w, e): _enc(insts[w], e) for w in (0, 1)
                    for e in (1, 2)}
            ys = [Packing(insts[0]), Packing(insts[1])]
            xs = [wb.x_array(p, insts[w]) for w, _e, p in jobs_def]

            def dec(k):
                w, e, _p = jobs_def[k]
                ys[w].fill(-1)
                encs[(w, e)].decode(xs[k], ys[w])
                return wb.rows_of(ys[w]), ys[w].n_bins
            return [lambda k=k: dec(k) for k in range(len(jobs_def))]
        ctx.count("concurrent_rounds")
        if not stress(ctx, "model_decodes", jobs_for, ref,
                      lambda a, b: a[0] == b[0] and a[1] == b[1],
                      n_threads=int(args.get("threads", 6)),
                      loops=int(args.get("loops", 40)),
                      case={"kind": "threads", "desc": desc, "sibling": sib,
                            "jobs": [[w, e, p] for w, e, p in jobs_def]}):
            return


def run_shard(ctx, args):
    if args.get("mode") == "threads":
        return threads_shard(ctx, args)
    if args.get("mode") == "manybins":
        return manybins_shard(ctx, args)
    if args.get("mode") == "pairs":
        return pairs_shard(ctx, args)
    if args.get("mode") == "hugearea":
        return hugearea_shard(ctx, args)
    rng = ctx.rng
    classes = ["tiny", "general", "forcedrot", "general", "itembin",
               "smallgrid", "smallgrid", "dtype", "shipped", "unit", "twins",
               "twins", "count"]
    names = None
    for it in range(args["n"]):
        cls = classes[it % len(classes)]
        if cls == "shipped":
            if names is None:
                names = list(wb.shipped_names())
            while True:
                desc = wb.shipped_desc(str(rng.choice(names)))
                if wb.n_items(desc) <= 100:
                    break
        elif cls == "smallgrid":
            # small grids make ties and supporters frequent
            W = int(rng.integers(4, 13))
            H = int(rng.integers(4, 13))
            items = [[int(rng.integers(1, max(2, W // 2 + 1))),
                      int(rng.integers(1, max(2, H // 2 + 1))),
                      int(rng.integers(1, 6))]
                     for _ in range(int(rng.integers(2, 7)))]
            desc = {"name": wb._name(rng), "W": W, "H": H, "items": items,
                    "cls": cls}
        else:
            desc = wb.gen_instance(rng, cls)
        ctx.count(f"inst_cls[{cls}]")
        try:
            for e in (1, 2):
                steps = gen_steps(rng, desc, int(rng.integers(5, 41))
                                  if ctx.tier == "thorough"
                                  else int(rng.integers(5, 16)))
                ok = run_history(ctx, desc, e, steps)
                ctx.count("histories")
                if ok and it % 25 == 0 and e == 2:
                    ctx.sample({"instance": {k: desc[k] for k in
                                             ("W", "H", "items")},
                                "encoding": e, "history_len": len(steps),
                                "first_steps": [[s[0][:12], s[1], s[2], s[3]]
                                                for s in steps[:3]]})
        except ValueError as ex:
            if wb.outside_domain(desc):
                ctx.count("generator_rejected_by_ctor")
                continue
            raise


def gen_micro(rng) -> dict:
    """<= 5 (sometimes 6) items: 1-2 item types too big for two copies to
    share a bin, plus strips / blocks that leave room beside or above them."""
    W = int(rng.integers(6, 13))
    H = int(rng.integers(6, 13))
    left = int(rng.choice([4, 5, 5, 5, 6]))
    items = []
    bw = int(rng.integers(W // 2 + 1, W))
    bh = int(rng.integers(H // 2 + 1, H))
    r = int(rng.integers(2, 4))
    items.append([bw, bh, r])
    left -= r
    while left > 0:
        kind = int(rng.integers(5))
        if kind == 0:      # strip that fits beside the big item, full height
            w, h = W - bw, H
        elif kind == 1:    # strip that fits above the big item, full width
            w, h = W, H - bh
        elif kind == 2:    # a whole bin
            w, h = W, H
        elif kind == 3:    # another big type
            w = int(rng.integers(W // 2 + 1, W + 1))
            h = int(rng.integers(H // 2 + 1, H + 1))
        else:
            w = int(rng.integers(1, W + 1))
            h = int(rng.integers(1, H + 1))
        r = int(rng.integers(1, min(left, 2) + 1))
        if [w, h] in [it[:2] for it in items] or (
                [h, w] in [it[:2] for it in items] and h <= W and w <= H):
            continue
        items.append([w, h, r])
        left -= r
    order = [int(i) for i in rng.permutation(len(items))]
    return {"name": wb._name(rng), "W": W, "H": H,
            "items": [items[i] for i in order], "cls": "micro"}


def _scratch_state(enc, y) -> bytes:
    """Everything array-valued the encoder object holds (whatever it is
    called) plus the destination: two histories that leave the same bytes
    are the same history as far as a later decode can tell."""
    parts = []
    for k in sorted(vars(enc)):
        v = vars(enc)[k]
        if isinstance(v, np.ndarray) and k != "instance" and not hasattr(
                v, "bin_width"):
            parts.append(v.tobytes())
    parts.append(np.asarray(y).tobytes())
    return b"|".join(parts)


def pair_histories(ctx, desc, e, budget):
    """Every B after every distinguishable predecessor state: all signed
    permutations A of a micro instance are decoded once, one representative
    per distinct state they leave in (encoder, destination) is kept, and
    every B is then decoded right after every representative."""
    from moptipyapps.binpacking2d.packing import Packing
    rng = ctx.rng
    inst = wb.make_real(desc)
    perms = list(wb.all_signed_perms(desc))
    if len(perms) > 2000:
        perms = [perms[int(i)] for i in rng.permutation(len(perms))[:2000]]
        whole = False
    else:
        whole = True
    enc = _enc(inst, e)
    y = Packing(inst)
    y.fill(0)
    reps: dict[bytes, list[int]] = {}
    want = {}
    for p in perms:
        if not compare(ctx, desc, inst, enc, e, p, y, [[p, "keep", 0, 0]]):
            return
        want[tuple(p)] = (np.array(y), y.n_bins)
        reps.setdefault(_scratch_state(enc, y), p)
    ctx.seen_max("pair_distinct_predecessor_states", len(reps))
    states = list(reps.values())
    done = 0
    full = len(states) * len(perms) <= budget
    order = rng.permutation(len(perms))
    for bi in order:
        b = perms[int(bi)]
        xb = wb.x_array(b, inst)
        ref, refk = want[tuple(b)]
        for a in states:
            if done >= budget:
                break
            enc.decode(wb.x_array(a, inst), y)
            enc.decode(xb, y)
            done += 1
            ctx.count("pair_history_decodes")
            if y.n_bins != refk or not np.array_equal(y, ref):
                ctx.count("pair_history_differences")
                steps = [(a, "keep", 0, 0), (b, "keep", 0, 0)]
                if run_history(ctx, desc, e, steps):
                    ctx.violation(
                        f"decode-depends-on-history:enc{e}",
                        f"enc{e}: decoding {b} right after {a} differs from "
                        f"decoding it first (same encoder and destination), "
                        f"but a replay of the pair did not differ",
                        {"kind": "history", "desc": desc, "enc": e,
                         "history": [list(s) for s in steps]})
                return
        if done >= budget:
            break
    ctx.count("pair_instances")
    if full and whole:
        ctx.count("pair_instances_all_pairs")
        ctx.mark_exhaustive(
            "micro instances: every signed permutation decoded after one "
            "representative of every distinct (encoder arrays, destination) "
            "state any signed permutation leaves behind")


def pairs_shard(ctx, args):
    rng = ctx.rng
    for it in range(args["n"]):
        desc = gen_micro(rng)
        ctx.count("inst_cls[micro]")
        try:
            for e in (1, 2):
                pair_histories(ctx, desc, e, args["budget"])
        except ValueError as ex:
            if wb.outside_domain(desc):
                ctx.count("generator_rejected_by_ctor")
                continue
            raise


def replay_threads(ctx, case):
    from moptipyapps.binpacking2d.packing import Packing

    from vlib.threads import stress
    descs = [case["desc"], case["sibling"]]
    insts = [wb.make_real(d) for d in descs]
    jobs_def = [(w, e, p) for w, e, p in case["jobs"]]
    ref = []
    for w, e, perm in jobs_def:
        d = descs[w]
        mrows, mk, _st = ibl.decode(d["W"], d["H"], d["items"], perm,
                                    first_fit=(e == 2))
        ref.append((mrows, mk))

    def jobs_for(tid):
        encs = {(w, e): _enc(insts[w], e) for w in (0, 1) for e in (1, 2)}
        ys = [Packing(insts[0]), Packing(insts[1])]
        xs = [wb.x_array(p, insts[w]) for w, _e, p in jobs_def]

        def dec(k):
            w, e, _p = jobs_def[k]
            ys[w].fill(-1)
            encs[(w, e)].decode(xs[k], ys[w])
            return wb.rows_of(ys[w]), ys[w].n_bins
        return [lambda k=k: dec(k) for k in range(len(jobs_def))]
    for _ in range(10):
        if not stress(ctx, "model_decodes", jobs_for, ref,
                      lambda a, b: a[0] == b[0] and a[1] == b[1],
                      n_threads=6, loops=40, case=case):
            return


def replay(ctx, case):
    if case.get("kind") == "threads":
        return replay_threads(ctx, case)
    if case.get("kind") == "manybins":
        return manybins_shard(ctx, {"sizes": [], "case": case})
    steps = [(p, m, we, wd) for p, m, we, wd in case["history"]]
    run_history(ctx, case["desc"], case["enc"], steps)
