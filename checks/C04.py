"""C04 - packing validation accepts exactly the feasible packings."""
from __future__ import annotations

import re

import numpy as np

from vlib.oracles import packing as po
from vlib.workloads import binpack as wb

PID = "C04"
RULE = ("feasible packings (decoder outputs of both encodings, random "
        "placements, mirrored / relabelled / shuffled / own-bin layouts, "
        "bins wider than 10^9) and classified corruptions of them (side +-1, "
        "other item's size, one side matching the rotated item, id swaps, "
        "shifts, bin id 0/gap/n+1, wrong n_bins incl. non-int, duplicate "
        "rows, wrong dtype/shape, text corruptions); every matrix is labelled "
        "by the independent oracle; validate() must accept iff feasible. "
        "non-trivial = distinct (instance, matrix, n_bins) that is either "
        "infeasible by >= 1 changed field or a feasible non-decoder layout")
LEVEL_ASSUMPTIONS = [
    "oracle vlib/oracles/packing.py is the property text (self-tested)",
    "values that do not fit the packing's integer type cannot be represented "
    "and are skipped",
]
REQUIRED = {"suite_runs": 1, "contract_validate_evaluated": 50, "judged_feasible": 50, "judged_infeasible": 50,
            "text_roundtrips": 20}


# the repository's own tests as a further workload, observed by the
# process-wide contracts of vlib/monitors (see vlib/suite.py)
SUITE_TESTS = ['tests/binpacking2d/test_binpacking2d_packing_space.py', 'tests/binpacking2d/encodings']
SUITE_DOMAINS = ['packing']


def plan(tier: str, seed: int):
    rounds = 1 if tier == "quick" else 6
    return _plan(tier, seed) + [
        # the same workload once in an interpreter started with -O
        {"name": "opt", "engine": "opt", "timeout": 3000,
         "args": {"n": 180 if tier == "quick" else 1800}}] + [
        {"name": f"suite{i}", "engine": "jit", "timeout": 3000,
         "args": {"mode": "suite", "tests": SUITE_TESTS,
                  "domains": SUITE_DOMAINS, "rounds": rounds}}
        for i in range(1 if tier == "quick" else 4)]


def _plan(tier: str, seed: int):
    if tier == "quick":
        return [{"name": f"s{i}", "engine": "jit", "args": {"n": 45},
                 "timeout": 900} for i in range(4)]
    return [{"name": f"s{i}", "engine": "jit", "args": {"n": 900},
             "timeout": 3000} for i in range(16)]


def _mech(accepted: bool, reason: str | None, exc: str | None) -> str:
    if accepted:
        r = re.sub(r"[-+]?\d+", "#", reason or "")
        r = r.split(":")[-1].strip() if ":" in r else r
        return "accepts-infeasible:" + r[:60]
    e = re.sub(r"[-+]?\d+", "#", exc or "")
    return "rejects-feasible:" + e[:70]


def enc_nb(nb):
    if type(nb) is int:  # noqa: E721
        return nb
    return {"type": type(nb).__name__, "value": None if nb is None
            else str(nb)}


def dec_nb(v):
    if isinstance(v, dict):
        t, val = v["type"], v["value"]
        if t == "NoneType":
            return None
        if t == "str":
            return val
        if t == "float":
            return float(val)
        return getattr(np, t)(val)
    return v


def judge(ctx, desc, inst, space, rows, n_bins, tag, origin_nt=True,
          dtype=None):
    """Run validate on one matrix and compare with the oracle."""
    from moptipyapps.binpacking2d.packing import Packing
    reason = po.infeasibility(desc, rows, n_bins)
    if reason is None and dtype is not None:
        reason = "wrong dtype"
    try:
        if dtype is None:
            y = wb.to_packing(inst, rows, n_bins)
        else:
            # same values, other integer type
            base = np.array(rows, dtype=dtype)
            y = base.view(Packing)
            y.instance = inst
            y.n_bins = n_bins
    except (OverflowError, ValueError):
        ctx.count("skipped_unrepresentable")
        return
    ctx.case()
    exc = None
    try:
        space.validate(y)
        accepted = True
    except (ValueError, TypeError) as e:
        accepted = False
        exc = f"{type(e).__name__}: {e}"
    ctx.count("validate_calls")
    ctx.count("judged_feasible" if reason is None else "judged_infeasible")
    ctx.count(f"tag[{tag}]")
    if reason is not None:
        ctx.count("infeasible_kind[" + re.sub(r"\d+", "#", reason)[:40] + "]")
    if origin_nt:
        ctx.nontrivial(desc["items"], desc["W"], desc["H"], rows,
                       repr(n_bins))
    if accepted != (reason is None):
        what = (f"validate accepted an infeasible packing ({reason}); tag="
                f"{tag}" if accepted else
                f"validate rejected a feasible packing with {exc}; tag={tag}")
        ctx.violation(_mech(accepted, reason, exc), what,
                      {"kind": "validate", "desc": desc, "rows": rows,
                       "n_bins": enc_nb(n_bins), "tag": tag,
                       "dtype": None if dtype is None else str(dtype)})
    return accepted


def text_case(ctx, desc, inst, space, rows, n_bins):
    """from_str(to_str(y)) equals y and is validated."""
    y = wb.to_packing(inst, rows, n_bins)
    txt = space.to_str(y)
    ctx.case()
    try:
        y2 = space.from_str(txt)
    except Exception as e:  # noqa
        ctx.violation("text-roundtrip-raises:" + type(e).__name__,
                      f"from_str(to_str(y)) raised {type(e).__name__}: {e}",
                      {"kind": "text", "desc": desc, "rows": rows,
                       "n_bins": n_bins})
        return
    ctx.count("text_roundtrips")
    same = (wb.rows_of(y2) == rows and y2.n_bins == n_bins
            and y2.dtype == y.dtype and y2.instance is inst
            and type(y2.n_bins) is int)
    if not same:
        ctx.violation("text-roundtrip-differs",
                      "from_str(to_str(y)) differs from y",
                      {"kind": "text", "desc": desc, "rows": rows,
                       "n_bins": n_bins})
    # corrupted text: change one number
    toks = txt.split(";")
    rng = ctx.rng
    for _ in range(3):
        t2 = list(toks)
        j = int(rng.integers(len(t2)))
        delta = int(rng.choice([-2, -1, 1, 2, 5]))
        t2[j] = str(int(t2[j]) + delta)
        rows2 = [[int(v) for v in t2[i * 6:(i + 1) * 6]]
                 for i in range(len(rows))]
        info = np.iinfo(inst.dtype)
        if not (info.min <= int(t2[j]) <= info.max):
            continue
        nb2 = max(r[1] for r in rows2)
        reason = po.infeasibility(desc, rows2, nb2)
        ctx.case()
        try:
            space.from_str(";".join(t2))
            ok = True
            exc = None
        except (ValueError, TypeError) as e:
            ok = False
            exc = f"{type(e).__name__}: {e}"
        ctx.count("text_corruptions")
        ctx.nontrivial("text", desc["items"], rows2)
        if ok != (reason is None):
            ctx.violation("text:" + _mech(ok, reason, exc),
                          f"from_str accepted={ok} but oracle says {reason}",
                          {"kind": "textcorrupt", "desc": desc,
                           "text": ";".join(t2)})
    # wrong number of values
    for t2 in (toks[:-1], toks + ["1"]):
        ctx.case()
        try:
            space.from_str(";".join(t2))
            ctx.violation("text-accepts-wrong-length",
                          "from_str accepted a text with a wrong number of "
                          "values", {"kind": "textcorrupt", "desc": desc,
                                     "text": ";".join(t2)})
        except (ValueError, TypeError):
            ctx.count("text_wrong_length_rejected")


def corruptions(rng, desc, rows, n_bins, dtype=None):
    """Yield (tag, rows, n_bins) corruptions of a feasible packing."""
    n = len(rows)
    k = n_bins
    items = desc["items"]

    def cp():
        return [list(r) for r in rows]

    j = int(rng.integers(n))
    # 0. what arithmetic in the packing's own narrow type makes of
    # "left + width" far to the right: the end coordinate wraps around, the
    # rectangle is inverted, its extent (taken in that type) is still right
    if dtype is not None and np.dtype(dtype).itemsize <= 2:
        info = np.iinfo(dtype)
        span = int(info.max) - int(info.min) + 1
        wj, hj = rows[j][4] - rows[j][2], rows[j][5] - rows[j][3]
        for ax, ext in ((0, wj), (1, hj)):
            rr = cp()
            start = int(info.max) - int(rng.integers(0, ext))
            rr[j][2 + ax] = start
            rr[j][4 + ax] = start + ext - span
            yield "wrapped-extent", rr, k
    # 1. one coordinate +-1
    rr = cp()
    rr[j][int(rng.integers(2, 6))] += int(rng.choice([-1, 1]))
    yield "side+-1", rr, k
    # 2. another item's size
    if len(items) > 1:
        rr = cp()
        o = int(rng.integers(len(items)))
        w, h = items[o][0], items[o][1]
        rr[j][4] = rr[j][2] + w
        rr[j][5] = rr[j][3] + h
        yield "othersize", rr, k
    # 3. one side matches the rotated item, the other is wrong (D1 shape)
    w, h = items[rows[j][0] - 1][0], items[rows[j][0] - 1][1]
    for (cw, ch, tg) in ((h, None, "w=h_item"), (None, w, "h=w_item"),
                         (w, None, "w=w_item"), (None, h, "h=h_item")):
        rr = cp()
        other = int(rng.integers(1, max(desc["W"], desc["H"]) + 2))
        nw = cw if cw is not None else other
        nh = ch if ch is not None else other
        rr[j][4] = rr[j][2] + nw
        rr[j][5] = rr[j][3] + nh
        yield "halfmatch:" + tg, rr, k
    # place at origin of its own new bin with half-matching size (keeps
    # inside-the-bin more often)
    rr = cp()
    nh = int(rng.integers(1, desc["H"] + 1))
    if h <= desc["W"]:
        rr[j] = [rr[j][0], rr[j][1], rr[j][2], rr[j][3], rr[j][2] + h,
                 rr[j][3] + nh]
        yield "halfmatch:free", rr, k
    # 4. swap the ids of two rows
    if n > 1:
        a, b = (int(v) for v in rng.choice(n, 2, replace=False))
        rr = cp()
        rr[a][0], rr[b][0] = rr[b][0], rr[a][0]
        yield "idswap", rr, k
        # swap bins of two rows
        rr = cp()
        rr[a][1], rr[b][1] = rr[b][1], rr[a][1]
        yield "binswap", rr, k
        # duplicate row
        rr = cp()
        rr[a] = list(rr[b])
        yield "duprow", rr, k
        # move row a onto row b's position (overlap)
        rr = cp()
        w_, h_ = rr[a][4] - rr[a][2], rr[a][5] - rr[a][3]
        rr[a][1] = rr[b][1]
        rr[a][2], rr[a][3] = rr[b][2], rr[b][3]
        rr[a][4], rr[a][5] = rr[b][2] + w_, rr[b][3] + h_
        yield "onto", rr, k
    # 5. shift
    rr = cp()
    dx = int(rng.integers(-4, 5))
    dy = int(rng.integers(-4, 5))
    rr[j][2] += dx
    rr[j][4] += dx
    rr[j][3] += dy
    rr[j][5] += dy
    yield "shift", rr, k
    # push across the border
    rr = cp()
    dx = desc["W"] - rr[j][4] + int(rng.integers(0, 2))
    rr[j][2] += dx
    rr[j][4] += dx
    yield "toborder", rr, k
    # 6. bin ids
    for nb, tg in ((0, "bin0"), (k + 2, "bingap"), (n + 1, "bin=n+1"),
                   (-1, "bin-1"), (k + 1, "bin=k+1")):
        rr = cp()
        rr[j][1] = nb
        yield tg, rr, max(r[1] for r in rr)
    # id out of range
    for nid, tg in ((0, "id0"), (len(items) + 1, "id=n+1"), (-1, "id-1")):
        rr = cp()
        rr[j][0] = nid
        yield tg, rr, k
    # 7. n_bins
    for nb, tg in ((k + 1, "nbins+1"), (k - 1, "nbins-1"), (0, "nbins0"),
                   (-1, "nbins-1abs")):
        yield tg, cp(), nb
    yield "nbins-npint", cp(), np.int64(k)
    yield "nbins-float", cp(), float(k)
    yield "nbins-str", cp(), str(k)
    yield "nbins-none", cp(), None
    # 8. combined: two random of the above applied in sequence
    rr = cp()
    a = int(rng.integers(n))
    rr[a][int(rng.integers(2, 6))] += int(rng.choice([-1, 1]))
    b = int(rng.integers(n))
    rr[b][1] = int(rng.integers(0, k + 3))
    yield "combo", rr, k
    # negative coordinate
    rr = cp()
    w_ = rr[j][4] - rr[j][2]
    rr[j][2] = -1
    rr[j][4] = w_ - 1
    yield "negx", rr, k
    # degenerate rectangle
    rr = cp()
    rr[j][4] = rr[j][2]
    yield "zero-width", rr, k


def huge_desc(rng) -> dict:
    """A bin wider than 10^9 (long-thin form)."""
    W = int(rng.integers(1_000_000_001, 4_000_000_000))
    H = int(rng.integers(1, 4))
    if rng.integers(2):
        W, H = H, W
    L = max(W, H)
    items = [[int(rng.integers(L // 3, L // 2)), 1, int(rng.integers(1, 4))]]
    for _ in range(int(rng.integers(0, 3))):
        ln = int(rng.integers(1, L // 4))
        items.append([ln, 1, 1] if rng.integers(2) else [1, ln, 1])
    return {"name": wb._name(rng), "W": W, "H": H, "items": items,
            "cls": "huge"}


def one_instance(ctx, desc):
    from moptipyapps.binpacking2d.encodings.ibl_encoding_1 import (
        ImprovedBottomLeftEncoding1,
    )
    from moptipyapps.binpacking2d.encodings.ibl_encoding_2 import (
        ImprovedBottomLeftEncoding2,
    )
    from moptipyapps.binpacking2d.packing_space import PackingSpace
    rng = ctx.rng
    inst = wb.make_real(desc)
    space = PackingSpace(inst)
    ctx.count(f"inst_cls[{desc['cls']}]")
    ctx.count(f"dtype[{inst.dtype}]")
    feas: list[tuple[str, list, int]] = []
    for enc_cls in (ImprovedBottomLeftEncoding1, ImprovedBottomLeftEncoding2):
        enc = enc_cls(inst)
        perm = wb.gen_perm(rng, desc, str(rng.choice(wb.PERM_KINDS)))
        y = space.create()
        enc.decode(wb.x_buffer(perm, inst), y)
        rows = wb.rows_of(y)
        if po.infeasibility(desc, rows, y.n_bins) is None:
            feas.append(("decoded", rows, y.n_bins))
        else:
            ctx.count("decoder_output_infeasible(seeC01)")
    if max(desc["W"], desc["H"]) <= 40:
        rp = wb.random_placement(rng, desc)
        if rp is not None:
            feas.append(("randomplace", rp, max(r[1] for r in rp)))
    base = list(feas)
    for tag, rows, _nb in base[:2]:
        for vt, vr in wb.layout_variants(rng, desc, rows):
            nb = max(r[1] for r in vr)
            feas.append((vt, vr, nb))
    # judge all "intended feasible" ones (oracle decides the label)
    really = []
    for tag, rows, nb in feas:
        acc = judge(ctx, desc, inst, space, rows, nb, tag,
                    origin_nt=(tag != "decoded"))
        if acc is not None and po.infeasibility(desc, rows, nb) is None:
            really.append((tag, rows, nb))
    if not really:
        return
    # corruptions of up to 3 feasible ones
    pick = [really[int(i)] for i in
            rng.choice(len(really), min(3, len(really)), replace=False)]
    for tag, rows, nb in pick:
        for ct, cr, cn in corruptions(rng, desc, rows, nb, inst.dtype):
            judge(ctx, desc, inst, space, cr, cn, ct)
    # structural: wrong dtype, shape, type
    tag, rows, nb = pick[0]
    for dt in (np.int64, np.int32, np.int16, np.int8, np.uint8, np.uint64):
        if np.dtype(dt) == inst.dtype:
            continue
        arr = np.array(rows, dtype=np.int64)
        info = np.iinfo(dt)
        if arr.min() < info.min or arr.max() > info.max:
            continue
        judge(ctx, desc, inst, space, rows, nb, f"dtype:{np.dtype(dt)}",
              dtype=dt)
        break
    ctx.case()
    y = wb.to_packing(inst, rows, nb)
    bad = False
    try:
        space.validate(np.array(rows))  # plain ndarray, not a Packing
        bad = True
    except (TypeError, ValueError, AttributeError):
        ctx.count("non_packing_rejected")
    if bad:
        ctx.violation("accepts-non-packing", "validate accepted a plain "
                      "ndarray", {"kind": "validate", "desc": desc,
                                  "rows": rows, "n_bins": nb, "tag": "plain"})
    # text form
    for tag, rows, nb in pick[:2]:
        text_case(ctx, desc, inst, space, rows, nb)
    ctx.sample({"instance": {k: desc[k] for k in ("W", "H", "items")},
                "a_feasible_layout": pick[0][0], "rows": pick[0][1][:4]})


def run_shard(ctx, args):
    rng = ctx.rng
    classes = ["tiny", "itembin", "forcedrot", "dtype", "general", "general",
               "unit", "huge", "shipped", "count"]
    names = None
    for it in range(args["n"]):
        cls = classes[it % len(classes)]
        if cls == "huge":
            desc = huge_desc(rng)
        elif cls == "shipped":
            if names is None:
                names = [n for n in wb.shipped_names()]
            # small shipped ones only: validate is O(n^2) python
            while True:
                desc = wb.shipped_desc(str(rng.choice(names)))
                if wb.n_items(desc) <= 60:
                    break
        else:
            desc = wb.gen_instance(rng, cls)
        if cls == "unit" and wb.n_items(desc) > 129:
            continue
        try:
            one_instance(ctx, desc)
        except ValueError as e:
            # constructor refused the generated description: not a case
            if wb.outside_domain(desc):
                ctx.count("generator_rejected_by_ctor")
                continue
            raise


def replay(ctx, case):
    from moptipyapps.binpacking2d.packing_space import PackingSpace
    desc = case["desc"]
    inst = wb.make_real(desc)
    space = PackingSpace(inst)
    if case["kind"] == "validate":
        nb = dec_nb(case["n_bins"])
        dt = np.dtype(case["dtype"]).type if case.get("dtype") else None
        judge(ctx, desc, inst, space, case["rows"], nb, case["tag"],
              dtype=dt)
    elif case["kind"] == "text":
        text_case(ctx, desc, inst, space, case["rows"], case["n_bins"])
    else:
        toks = case["text"].split(";")
        n = wb.n_items(desc)
        ok = True
        try:
            space.from_str(case["text"])
        except (ValueError, TypeError):
            ok = False
        reason = "wrong length"
        if len(toks) == 6 * n:
            rows2 = [[int(v) for v in toks[i * 6:(i + 1) * 6]]
                     for i in range(n)]
            reason = po.infeasibility(desc, rows2, max(r[1] for r in rows2))
        ctx.case()
        if ok != (reason is None):
            ctx.violation("text:" + _mech(ok, reason, "raised"),
                          f"from_str accepted={ok}, oracle: {reason}", case)
