"""C11 - controller figure of merit is a pure function of the parameters."""
from __future__ import annotations

import hashlib
import math
import os

import numpy as np

PID = "C11"
RULE = ("recorded histories on ONE FigureOfMerit / FigureOfMeritLE object: "
        "random interleavings (length 10-40) of evaluate(x) over a pool of "
        "4-6 vectors (small, large, diverging -> 1e200), initialize(), "
        "set_model(m), set_raw(), get_differentials(); systems: bundled "
        "Stuart-Landau / Lorenz with reduced step counts and 1-3 training "
        "cases; controllers linear / quadratic / cubic / ANN / peaks / "
        "partially linear; models m: hand-made linear models; plus the REAL "
        "SurrogateOptimizer.solve with tiny budgets while the recorder is "
        "attached. Offline oracle = 20-line sequential model (mode, rows): "
        "evaluate(x) must return bitwise what a freshly constructed "
        "objective returns in that mode, a value in [0,1e100] or exactly "
        "1e200, equal to mean / expm1(mean(log1p)) of independently "
        "recomputed per-case J; the collection grows only in raw evaluates "
        "by exactly the rows a fresh objective collects, initialize() "
        "empties it. non-trivial = distinct histories with >= 1 mode switch "
        "and >= 1 repeated vector")
LEVEL_ASSUMPTIONS = [
    "fresh objects of the same classes are the reference for values (the "
    "property is purity, i.e. history independence)",
    "private collection lists are read (read-only) through their mangled "
    "names; if they are renamed the ghost read falls back to "
    "get_differentials() on a probe"]
REQUIRED = {"evaluations_on_copied_objectives": 4, "surrogate_after_run_probes": 3, "surrogate_runs_stopped_during_model_phase": 1,
            "histories": 20, "events_checked": 300, "mode_switches": 40,
            "raw_evaluates_after_model_mode": 20, "failure_values_1e200": 5,
            "per_case_j_recomputed": 100, "surrogate_histories": 1,
            "collection_growth_checked": 100,
            "histories_with_one_failing_training_case": 3}


def plan(tier: str, seed: int):
    if tier == "quick":
        return [{"name": f"s{i}", "engine": "jit",
                 "args": {"n": 9, "surrogate": 1}, "timeout": 1700}
                for i in range(4)]
    return [{"name": f"s{i}", "engine": "jit",
             "args": {"n": 100, "surrogate": 3}, "timeout": 3400}
            for i in range(16)]


def checksum(a) -> str:
    if a is None:
        return "none"
    return hashlib.blake2b(np.ascontiguousarray(a).tobytes(),
                           digest_size=8).hexdigest()


def ghost(obj):
    """(n_rows, checksum) of the collected data, read-only."""
    sc = getattr(obj, "_FigureOfMerit__collection_sc", "missing")
    df = getattr(obj, "_FigureOfMerit__collection_df", "missing")
    if isinstance(sc, str) or isinstance(df, str):
        return None
    if sc is None:
        return (0, "unsupported")
    if len(sc) == 0:
        return (0, "empty")
    a = np.concatenate(sc)
    b = np.concatenate(df)
    return (int(a.shape[0]), checksum(a) + checksum(b))


def make_linear_model(rng, n, cdim):
    A = rng.uniform(-0.5, 0.5, (n, n)) - 0.3 * np.eye(n)
    B = rng.uniform(-0.5, 0.5, (n, cdim))

    def model(state, t, control, out):
        out[:] = A @ state + B @ control
    model.tag = "lin" + checksum(np.hstack([A, B]))
    return model


def make_exploding_model(n):
    """A (very poor) surrogate on which every controller diverges: the state
    leaves the sane range within a few steps, the objective must report
    1e200 - in model mode only."""
    def model(state, t, control, out):
        out[:] = 1e12
    model.tag = f"explode{n}"
    return model


class Budget(Exception):
    """The right-hand-side budget of one history is exhausted."""


class RhsGuard:
    """Counts system-equation calls; bounds the cost of one history."""

    def __init__(self, eq, limit):
        self.eq, self.limit, self.n = eq, limit, 0

    def __call__(self, state, t, control, out):
        self.n += 1
        if self.n > self.limit:
            raise Budget
        self.eq(state, t, control, out)


class GuardedModel:
    """A model callable that draws from the same budget as the system."""

    def __init__(self, model, guard):
        self.model, self.guard, self.tag = model, guard, model.tag

    def __call__(self, state, t, control, out):
        g = self.guard
        g.n += 1
        if g.n > g.limit:
            raise Budget
        self.model(state, t, control, out)


def make_instance(rng):
    from moptipyapps.dynamic_control.controllers.ann import anns
    from moptipyapps.dynamic_control.controllers.cubic import cubic
    from moptipyapps.dynamic_control.controllers.linear import linear
    from moptipyapps.dynamic_control.controllers.partially_linear import (
        partially_linear,
    )
    from moptipyapps.dynamic_control.controllers.peaks import peaks
    from moptipyapps.dynamic_control.controllers.quadratic import quadratic
    from moptipyapps.dynamic_control.instance import Instance
    from moptipyapps.dynamic_control.systems.lorenz import make_lorenz
    from moptipyapps.dynamic_control.systems.stuart_landau import (
        make_stuart_landau,
    )
    sysm = make_stuart_landau(4) if rng.integers(3) else make_lorenz(4)
    k = int(rng.integers(1, 4))
    setattr(sysm, "training_starting_states",
            np.array(sysm.training_starting_states[0:k]))
    setattr(sysm, "training_steps", int(rng.integers(10, 40)))
    setattr(sysm, "training_time", float(rng.choice([1.0, 3.0, 8.0])))
    setattr(sysm, "equations", RhsGuard(sysm.equations, 2_500_000))
    fam = int(rng.integers(7))
    if fam == 6 or (k >= 2 and fam == 5 and rng.integers(2)):
        # a user's own controller: weak linear feedback, but for parameter
        # vectors with params[-1] > 0.5 it saturates (1e12) exactly at the
        # start state of ONE training case - the simulation of that case
        # alone fails at t = 0
        from moptipyapps.dynamic_control.controller import Controller
        which = int(rng.choice([0, k - 1, k - 1, int(rng.integers(k))]))
        trig = np.array(sysm.training_starting_states[which], float)
        nd = sysm.state_dims

        def cfun(state, t, params, out, trig=trig, nd=nd):
            out[0] = float(params[0:nd] @ state) * 0.05
            if params[nd] > 0.5 and t == 0.0 and np.array_equal(state, trig):
                out[0] = 1e12
        ctrl = Controller(f"trigger{which}of{k}", nd, 1, nd + 1, cfun)
        setattr(ctrl, "_verif_trigger", which)
        return Instance(sysm, ctrl)
    if fam == 0:
        ctrl = linear(sysm)
    elif fam == 1:
        ctrl = quadratic(sysm)
    elif fam == 2:
        ctrl = cubic(sysm)
    elif fam == 3:
        lst = list(anns(sysm))
        ctrl = lst[int(rng.integers(len(lst)))]
    elif fam == 4:
        lst = list(peaks(sysm))
        ctrl = lst[int(rng.integers(len(lst)))]
    else:
        lst = list(partially_linear(sysm))
        ctrl = lst[int(rng.integers(len(lst)))]
    return Instance(sysm, ctrl)


def per_case_js(inst, equations, x):
    """Independent recomputation of the per-case figures of merit."""
    from moptipyapps.dynamic_control.ode import run_ode
    s = inst.system
    out = []
    rows = []
    for start in s.training_starting_states:
        res = run_ode(np.array(start), equations, inst.controller.controller,
                      x, inst.controller.control_dims, s.training_steps,
                      s.training_time)
        n = len(start)
        if res.shape[0] <= 1:
            out.append(1e200)
            break
        u = n if s.state_dims_in_j <= 0 else s.state_dims_in_j
        cd = res.shape[1] - 1 - n
        terms = []
        for i in range(res.shape[0] - 1):
            w = res[i + 1, -1] - res[i, -1]
            for c in range(cd):
                terms.append(s.gamma * w * res[i, n + c] ** 2)
            if i >= 1:
                for d in range(u):
                    terms.append(w * res[i, d] ** 2)
        j = math.fsum(terms) / res[-1, -1]
        out.append(j)
        if not (0.0 <= j <= 1e100):
            break
        rows.append(res.shape[0] - 1)
    return out, rows


def expected_value(js, le):
    if any(not (0.0 <= j <= 1e100) for j in js):
        return 1e200
    a = np.array(js, float)
    z = float(math.expm1(np.log1p(a).mean())) if le else float(a.mean())
    return z if 0.0 <= z <= 1e100 else 1e200


class Reference:
    """Table of what a freshly constructed objective returns/collects."""

    def __init__(self, ctx, cls, inst, collecting):
        self.ctx, self.cls, self.inst = ctx, cls, inst
        self.collecting = collecting
        self.values = {}
        self.rows = {}

    def value(self, mode, m, x):
        key = (mode, getattr(m, "tag", id(m)) if m is not None else None,
               x.tobytes())
        if key not in self.values:
            fresh = self.cls(self.inst, True)
            if mode == "model":
                fresh.set_model(m)
            v = fresh.evaluate(x.copy())
            self.values[key] = v
            if mode == "raw":
                self.rows[x.tobytes()] = ghost(fresh)
            # definition check against independent per-case recomputation
            eq = m if mode == "model" else self.inst.system.equations
            js, _ = per_case_js(self.inst, eq, x)
            self.ctx.count("per_case_j_recomputed", len(js))
            want = expected_value(js, self.cls.__name__.endswith("LE"))
            if not (v == want or (math.isfinite(v) and abs(v - want)
                                  <= 1e-9 * max(1.0, abs(want)))):
                self.ctx.violation(
                    "fresh-value-differs-from-definition",
                    f"{self.cls.__name__} ({mode}) = {v!r}, "
                    f"mean/LE-mean of recomputed per-case J = {want!r}",
                    self.ctx.shard_replay_case(what="definition"))
        return self.values[key]

    def raw_rows(self, x):
        self.value("raw", None, x)
        return self.rows[x.tobytes()]


def run_history(ctx, rng, cls, inst, collecting, ops, pool, models, case):
    """Execute ops on one object, record, and check against the model."""
    obj = cls(inst, collecting)
    ref = Reference(ctx, cls, inst, collecting)
    mode, cur_m = "raw", None
    exp_rows = 0
    exp_blocks: list[tuple[int, str]] = []
    switched = False
    scratch = None
    seen_x = set()
    repeated = False
    after_model = False
    for step, (op, arg) in enumerate(ops):
        ctx.count("events_checked")
        c = dict(case, step=step, op=op)
        before = ghost(obj)
        if op == "evaluate":
            # optimisers hand over the same array object again and again,
            # overwritten in place: one scratch buffer for every other call
            if step % 2:
                if scratch is None:
                    scratch = np.empty_like(pool[arg])
                scratch[:] = pool[arg]
                x = scratch
                ctx.count("evaluations_from_a_reused_point_buffer")
            else:
                x = pool[arg]
            if arg in seen_x:
                repeated = True
            seen_x.add(arg)
            x0 = x.copy()
            v = obj.evaluate(x)
            if x.tobytes() != x0.tobytes():
                ctx.violation("evaluate-modifies-x", "x changed", c)
            if not ((isinstance(v, float) and 0.0 <= v <= 1e100)
                    or v == 1e200):
                ctx.violation("value-outside-range", f"{v!r}", c)
            if v == 1e200:
                ctx.count("failure_values_1e200")
            want = ref.value(mode, cur_m, x)
            if not (v == want):
                ctx.violation(
                    f"value-depends-on-history:{cls.__name__}:{mode}",
                    f"step {step}: evaluate returned {v!r}, a fresh "
                    f"objective returns {want!r} (mode {mode})", c)
            after = ghost(obj)
            ctx.count("collection_growth_checked")
            if mode == "raw" and after_model:
                ctx.count("raw_evaluates_after_model_mode")
            if after is not None and before is not None:
                grow = after[0] - before[0]
                if mode == "raw" and collecting:
                    rr = ref.raw_rows(x)
                    exp = rr[0] if rr is not None else None
                    if exp is not None and grow != exp:
                        ctx.violation(
                            "collection-growth-differs",
                            f"step {step}: raw evaluate added {grow} rows, a "
                            f"fresh objective collects {exp}", c)
                    exp_rows += grow
                elif grow != 0 or after != before:
                    ctx.violation(
                        "collection-changed-outside-raw-evaluate",
                        f"step {step}: {op} in mode {mode} changed the "
                        f"collected data ({before} -> {after})", c)
        elif op == "initialize":
            obj.initialize()
            mode, cur_m = "raw", None
            exp_rows = 0
            after = ghost(obj)
            if after is not None and after[0] != 0:
                ctx.violation("initialize-does-not-clear",
                              f"{after[0]} rows remain", c)
        elif op == "set_model":
            m = models[arg]
            if collecting:
                obj.set_model(m)
                mode, cur_m = "model", m
                switched = True
                after_model = True
                ctx.count("mode_switches")
            else:
                try:
                    obj.set_model(m)
                    ctx.violation("set_model-without-collection-accepted",
                                  "no ValueError", c)
                except ValueError:
                    ctx.count("set_model_refused_without_collection")
            if ghost(obj) != before:
                ctx.violation("collection-changed-outside-raw-evaluate",
                              f"set_model changed the collected data", c)
        elif op == "set_raw":
            obj.set_raw()
            if mode == "model":
                ctx.count("mode_switches")
                switched = True
            mode, cur_m = "raw", None
            if ghost(obj) != before:
                ctx.violation("collection-changed-outside-raw-evaluate",
                              "set_raw changed the collected data", c)
        elif op == "get_differentials":
            try:
                sc, df = obj.get_differentials()
                if not collecting:
                    ctx.violation("get_differentials-without-collection",
                                  "no ValueError", c)
                elif before is not None and (
                        sc.shape[0] != before[0]
                        or checksum(sc) + checksum(df) != before[1]):
                    ctx.violation("get_differentials-content",
                                  f"returned {sc.shape[0]} rows, collected "
                                  f"{before[0]}", c)
                after = ghost(obj)
                if before is not None and after != before:
                    ctx.violation("get_differentials-changes-content",
                                  f"{before} -> {after}", c)
            except ValueError:
                if collecting and before is not None and before[0] > 0:
                    ctx.violation("get_differentials-raises", "ValueError "
                                  "although data was collected", c)
                else:
                    ctx.count("get_differentials_raised_on_empty_or_"
                              "unsupported")
    _ = exp_blocks
    ctx.count("histories")
    if switched and repeated:
        ctx.nontrivial(case["ops"], case["pool"], case["instance"])
    return obj


def gen_pool(rng, dim, trigger=False):
    pool = [rng.uniform(-0.3, 0.3, dim)]      # pool[0]: well-behaved
    if trigger:
        pool[0][-1] = 0.0
        v = rng.uniform(-0.3, 0.3, dim)
        v[-1] = 1.0                           # fails on exactly one case
        pool.append(v)
    for _ in range(int(rng.integers(4, 7))):
        k = int(rng.integers(5))
        if k == 0:
            pool.append(rng.uniform(-0.3, 0.3, dim))
        elif k == 1:
            pool.append(rng.uniform(-2.0, 2.0, dim))
        elif k == 2:
            pool.append(np.zeros(dim))
        elif k == 3:
            # diverging: huge positive feedback
            pool.append(np.full(dim, 30.0) * rng.choice([1.0, -1.0]))
        else:
            pool.append(rng.uniform(-8.0, 8.0, dim))
    # a vector whose control output leaves the sane range at t = 0, so that
    # the simulation fails and the objective returns 1e200
    pool.append(np.full(dim, 1e13))
    return pool


def gen_ops(rng, n_pool, n_models, length):
    ops = []
    for _ in range(length):
        r = int(rng.integers(20))
        if r < 11:
            ops.append(("evaluate", int(rng.integers(n_pool))))
        elif r < 14:
            ops.append(("set_model", int(rng.integers(n_models))))
        elif r < 17:
            ops.append(("set_raw", None))
        elif r < 19:
            ops.append(("get_differentials", None))
        else:
            ops.append(("initialize", None))
    # make sure the interesting pattern occurs: raw, model, raw on same x
    i = int(rng.integers(n_pool))
    ops += [("evaluate", i), ("set_model", 0), ("evaluate", i),
            ("set_raw", None), ("evaluate", i), ("get_differentials", None)]
    if n_models >= 3:
        # ... and: a vector that fails on a poor surrogate (last model) is
        # evaluated on the real system right afterwards
        ops += [("set_model", n_models - 1), ("evaluate", 0),
                ("set_raw", None), ("evaluate", 0),
                ("get_differentials", None)]
    return ops


def random_history(ctx, rng):
    from moptipyapps.dynamic_control.objective import (
        FigureOfMerit,
        FigureOfMeritLE,
    )
    inst = make_instance(rng)
    cls = FigureOfMeritLE if rng.integers(2) else FigureOfMerit
    collecting = bool(rng.integers(5) != 0)
    dim = inst.controller.param_dims
    trig = hasattr(inst.controller, "_verif_trigger")
    pool = gen_pool(rng, dim, trig)
    if trig:
        ctx.count("histories_with_one_failing_training_case")
        ctx.count("failing_case_is_the_last_one" if
                  inst.controller._verif_trigger == len(
                      inst.system.training_starting_states) - 1
                  else "failing_case_is_an_earlier_one")
    n = inst.system.state_dims
    models = [GuardedModel(make_linear_model(rng, n, inst.system.control_dims),
                           inst.system.equations) for _ in range(2)]
    models.append(GuardedModel(make_exploding_model(n),
                               inst.system.equations))
    length = int(rng.integers(10, 41)) if ctx.tier == "thorough" else int(
        rng.integers(8, 16))
    ops = gen_ops(rng, len(pool), len(models), length)
    case = {"kind": "__shard__", "idx": ctx.shard_idx,
            "spec": getattr(ctx, "spec", {}), "instance": str(inst),
            "cls": cls.__name__, "collecting": collecting,
            "steps": int(inst.system.training_steps),
            "cases": int(len(inst.system.training_starting_states)),
            "ops": [[o, a] for o, a in ops],
            "pool": [[float(v) for v in p] for p in pool]}
    ctx.case()
    ctx.count(f"class[{cls.__name__}]")
    ctx.count(f"controller[{inst.controller.name}]")
    try:
        run_history(ctx, rng, cls, inst, collecting, ops, pool, models, case)
    except Budget:
        ctx.count("undecided_histories_rhs_budget")
    ctx.seen_max("max_rhs_evaluations_per_history", inst.system.equations.n)
    return case


def copied_objective(ctx, rng):
    """A deep copy / an unpickled copy of an objective that already holds
    data: evaluating on the copy leaves the original alone, and the copy
    goes on like the object it was copied from. (A copy that cannot be made
    is not a verdict.)"""
    import copy
    import pickle

    from moptipyapps.dynamic_control.controllers.linear import linear
    from moptipyapps.dynamic_control.controllers.ann import make_ann
    from moptipyapps.dynamic_control.objective import (
        FigureOfMerit,
        FigureOfMeritLE,
    )
    from moptipyapps.dynamic_control.system_model import SystemModel
    from moptipyapps.dynamic_control.systems.stuart_landau import (
        make_stuart_landau,
    )
    sysm = make_stuart_landau(4)
    setattr(sysm, "training_starting_states",
            np.array(sysm.training_starting_states[0:2]))
    setattr(sysm, "training_steps", 12)
    setattr(sysm, "training_time", 2.0)
    ctrl = linear(sysm)
    inst = SystemModel(sysm, ctrl, make_ann(
        sysm.state_dims + sysm.control_dims, sysm.state_dims, []))
    cls = FigureOfMeritLE if rng.integers(2) else FigureOfMerit
    dim = ctrl.parameter_space().dimension
    case = ctx.shard_replay_case(what="copied-objective", cls=cls.__name__)
    for how, fn in (("deepcopy", copy.deepcopy),
                    ("pickle", lambda o: pickle.loads(pickle.dumps(o)))):
        obj = cls(inst, True)
        ref = Reference(ctx, cls, inst, True)
        x1 = np.array(rng.uniform(-1.0, 1.0, dim))
        x2 = np.array(rng.uniform(-1.0, 1.0, dim))
        obj.evaluate(x1)
        g0 = ghost(obj)
        try:
            twin = fn(obj)
            v = twin.evaluate(x2)
            gt = ghost(twin)
        except Exception:  # noqa: BLE001
            ctx.count(f"objective_not_clonable[{how}]")
            continue
        ctx.case()
        ctx.count("evaluations_on_copied_objectives")
        if gt is None:
            ctx.count("copied_objective_collection_not_observable")
        r1, r2 = ref.raw_rows(x1), ref.raw_rows(x2)
        want = ref.value("raw", None, x2)
        g1 = ghost(obj)
        if g1 != g0:
            ctx.violation(
                "collection-changed-outside-raw-evaluate",
                f"evaluating on a {how} copy changed the data of the "
                f"original: {g0[0]} -> {g1[0]} rows", case)
        elif v != want or (
                # (the collection is read through private fields: where a
                # tree names them differently it is simply not observed)
                gt is not None and r1 is not None and r2 is not None
                and gt[0] != r1[0] + r2[0]):
            ctx.violation(
                "copied-objective-differs",
                f"{how} copy: evaluate = {v!r} (fresh objective {want!r}), "
                f"holds {gt[0] if gt else None} rows, expected "
                f"{(r1[0] + r2[0]) if r1 and r2 else None}", case)


SURR: dict = {}


def surrogate_history(ctx, rng):
    """The real SurrogateOptimizer with tiny budgets, recorder attached."""
    from moptipy.api.execution import Execution

    from moptipyapps.dynamic_control.controllers.ann import make_ann
    from moptipyapps.dynamic_control.controllers.linear import linear
    from moptipyapps.dynamic_control.objective import (
        FigureOfMerit,
        FigureOfMeritLE,
    )
    from moptipyapps.dynamic_control.surrogate_optimizer import (
        SurrogateOptimizer,
    )
    from moptipyapps.dynamic_control.system_model import SystemModel
    from moptipyapps.dynamic_control.systems.stuart_landau import (
        make_stuart_landau,
    )
    sysm = make_stuart_landau(4)
    setattr(sysm, "training_starting_states",
            np.array(sysm.training_starting_states[0:int(rng.integers(1, 3))]))
    setattr(sysm, "training_steps", int(rng.integers(10, 16)))
    setattr(sysm, "training_time", 2.0)
    setattr(sysm, "equations", RhsGuard(sysm.equations, 4_000_000))
    ctrl = linear(sysm)
    model = make_ann(sysm.state_dims + sysm.control_dims, sysm.state_dims, [])
    inst = SystemModel(sysm, ctrl, model)
    cls = FigureOfMeritLE if rng.integers(2) else FigureOfMerit
    obj = cls(inst, True)
    log = []
    ref = Reference(ctx, cls, inst, True)
    state = {"mode": "raw", "m": None}
    orig = {k: getattr(obj, k) for k in (
        "evaluate", "initialize", "set_model", "set_raw",
        "get_differentials")}
    case = ctx.shard_replay_case(what="surrogate", cls=cls.__name__)

    def evaluate(x):
        before = ghost(obj)
        v = orig["evaluate"](x)
        after = ghost(obj)
        log.append(("evaluate", state["mode"], np.array(x), v, before,
                    after, state["m"]))
        return v

    def initialize():
        orig["initialize"]()
        state["mode"], state["m"] = "raw", None
        log.append(("initialize", "raw", None, None, None, ghost(obj), None))

    def set_model(m):
        orig["set_model"](m)
        state["mode"], state["m"] = "model", m
        log.append(("set_model", "model", None, None, None, ghost(obj), m))

    def set_raw():
        orig["set_raw"]()
        state["mode"], state["m"] = "raw", None
        log.append(("set_raw", "raw", None, None, None, ghost(obj), None))

    obj.evaluate = evaluate          # type: ignore
    obj.initialize = initialize      # type: ignore
    obj.set_model = set_model        # type: ignore
    obj.set_raw = set_raw            # type: ignore
    space = ctrl.parameter_space()
    total = int(rng.integers(4, 7))
    warm = int(rng.integers(2, total - 1))
    fancy = bool(rng.integers(2))
    extra = {}
    if fancy:
        # the optimizer's public "fancy_logs" option (plots and sub-run logs;
        # needs a log file); the sub-runs use random sampling because the
        # default BiPopCMAES cannot write its restart log with the pinned
        # dependencies (known finding D11 of C12)
        from moptipy.algorithms.random_sampling import RandomSampling
        from moptipy.operators.vectors.op0_uniform import Op0Uniform
        extra = {"fancy_logs": True,
                 "model_training_algorithm":
                     lambda v: RandomSampling(Op0Uniform(v)),
                 "controller_training_algorithm":
                     lambda v: RandomSampling(Op0Uniform(v))}
        ctx.count("surrogate_runs_with_fancy_logs")
    # every third run is stopped from outside (a time limit, Ctrl-C or an
    # external terminate()) while the optimizer works on the surrogate model
    holder: dict = {}
    SURR["n"] = SURR.get("n", 0) + 1
    # (every other surrogate run, starting with the first one of the shards
    # with an odd index: both kinds occur in the quick tier)
    stop_outside = (SURR["n"] + ctx.shard_idx) % 2 == 0
    so_class = SurrogateOptimizer
    if stop_outside:
        from moptipy.algorithms.random_sampling import RandomSampling
        from moptipy.operators.vectors.op0_uniform import Op0Uniform

        class StopsOuter(RandomSampling):
            def solve(self, process):
                super().solve(process)
                holder["p"].terminate()
                holder["stopped"] = True

        class Capturing(SurrogateOptimizer):
            def solve(self, process):
                holder["p"] = process
                super().solve(process)
        so_class = Capturing
        extra = {**extra, "controller_training_algorithm":
                 lambda v: StopsOuter(Op0Uniform(v))}
        if "model_training_algorithm" not in extra:
            extra["model_training_algorithm"] = \
                lambda v: RandomSampling(Op0Uniform(v))
        total += 3
    algo = so_class(inst, space, obj, fes_for_warmup=warm,
                              fes_for_training=int(rng.integers(4, 12)),
                              fes_per_model_run=int(rng.integers(3, 8)),
                              **extra)
    ex = (Execution().set_solution_space(space).set_objective(obj)
          .set_algorithm(algo).set_max_fes(total)
          .set_rand_seed(int(rng.integers(1 << 62))))
    tmpdir = None
    if fancy:
        import tempfile
        tmpdir = tempfile.mkdtemp(prefix="verif-c11-")
        ex.set_log_file(os.path.join(tmpdir, "run.txt"))
    ctx.case()
    try:
        with ex.execute() as p:
            best = p.get_best_f()
            main_fes = p.get_consumed_fes()
            raw_inside = sum(1 for e in log
                             if e[0] == "evaluate" and e[1] == "raw")
    except Budget:
        ctx.count("undecided_histories_rhs_budget")
        return
    except ValueError as e:
        if tmpdir:
            import shutil
            shutil.rmtree(tmpdir, ignore_errors=True)
        # moptipy re-evaluates the best solution when the process ends
        ctx.violation("surrogate-run-fails-end-validation",
                      f"the run raised {type(e).__name__}: {str(e)[:300]}",
                      case)
        return
    if tmpdir:
        import shutil
        shutil.rmtree(tmpdir, ignore_errors=True)
    # offline check of the recorded history
    ctx.count("surrogate_histories")
    n_model_eval = 0
    for pos, ev in enumerate(log):
        op, mode, x, v, before, after, m = ev
        ctx.count("events_checked")
        if op != "evaluate":
            if op in ("set_model", "set_raw"):
                ctx.count("mode_switches")
            continue
        if mode == "model":
            n_model_eval += 1
            if n_model_eval > 12:
                # sampled: every model-mode evaluate is checked for the
                # collection, the value only for the first dozen
                if after != before:
                    ctx.violation("collection-changed-outside-raw-evaluate",
                                  "model-mode evaluate changed the data",
                                  case)
                continue
        want = ref.value(mode, m, x)
        if not (v == want):
            ctx.violation(
                f"value-depends-on-history:{cls.__name__}:{mode}",
                f"surrogate run: evaluate returned {v!r}, a fresh objective "
                f"returns {want!r} (mode {mode})", case)
        ctx.count("collection_growth_checked")
        if mode == "raw":
            rr = ref.raw_rows(x)
            if rr is not None and before is not None and \
                    after[0] - before[0] != rr[0]:
                ctx.violation("collection-growth-differs",
                              f"surrogate run: +{after[0] - before[0]} rows, "
                              f"fresh objective collects {rr[0]}", case)
            if any(e[0] == "set_model" for e in log[:pos]):
                ctx.count("raw_evaluates_after_model_mode")
        elif after != before:
            ctx.violation("collection-changed-outside-raw-evaluate",
                          "model-mode evaluate changed the data", case)
    raw_vals = [e[3] for e in log if e[0] == "evaluate" and e[1] == "raw"]
    if stop_outside and holder.get("stopped"):
        ctx.count("surrogate_runs_stopped_during_model_phase")
    # what the run leaves behind: after initialize() the objective judges on
    # the real system again and collects from scratch
    xa = np.array(rng.uniform(-1.0, 1.0, space.dimension))
    n_log = len(log)
    obj.initialize()
    g0 = ghost(obj)
    va = obj.evaluate(xa)
    wa = ref.value("raw", None, xa)
    rr = ref.raw_rows(xa)
    g1 = ghost(obj)
    ctx.count("surrogate_after_run_probes")
    del log[n_log:]
    if not (va == wa) or (g0 is not None and g0[0] != 0) or (
            rr is not None and g1 is not None and g1[0] != rr[0]):
        ctx.violation(
            "objective-left-in-model-mode-after-run",
            f"after the surrogate run"
            f"{' (stopped from outside during the model phase)' if stop_outside else ''}"
            f": initialize() then evaluate(x) gives {va!r} with "
            f"{g0[0] if g0 else None}->{g1[0] if g1 else None} collected "
            f"rows; a fresh objective gives {wa!r} and collects "
            f"{rr[0] if rr else None}", case)
    if raw_inside != main_fes:
        ctx.violation("real-system-evaluations-differ-from-consumed-fes",
                      f"{raw_inside} evaluations happened in real-system "
                      f"mode but the optimization process consumed "
                      f"{main_fes} FEs", case)
    if raw_vals and best != min(raw_vals):
        ctx.violation("surrogate-best-f-not-a-real-system-value",
                      f"best_f {best!r} vs raw values {raw_vals}", case)
    ctx.nontrivial("surrogate", [e[0] for e in log][:60],
                   [float(e[3]) for e in log if e[0] == "evaluate"][:5])
    ctx.sample({"surrogate_history_ops": [e[0] + ":" + e[1]
                                          for e in log][:25],
                "class": cls.__name__, "total_fes": total, "warmup": warm})


def run_shard(ctx, args):
    rng = ctx.rng
    cap = 600 if ctx.tier == "quick" else 2400
    for it in range(args["n"]):
        if ctx.elapsed() > cap:
            # sizing of the workload only (stiff histories are slow); no
            # verdict depends on the clock
            ctx.count("histories_not_generated_time_cap", args["n"] - it)
            break
        case = random_history(ctx, rng)
        if it == 0:
            ctx.sample({k: case[k] for k in ("instance", "cls", "collecting",
                                             "steps", "cases")}
                       | {"ops": case["ops"][:14]})
    copied_objective(ctx, rng)
    for _ in range(args["surrogate"]):
        surrogate_history(ctx, rng)


def replay(ctx, case):
    # histories are regenerated from the shard seed; a witness is replayed by
    # re-running its shard (see vlib.harness: __shard__ replays)
    ctx.case()
    ctx.note("replay C11 witnesses by re-running the shard with its seed")
