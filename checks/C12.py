"""C12 - bundled experiment runs are replicable and log true results."""
from __future__ import annotations

import importlib.util
import math
import os
import shutil

import numpy as np

from vlib.oracles import packing as po
from vlib.oracles import ttp as ot
from vlib.workloads import binpack as wb

PID = "C12"
RULE = ("real moptipy Executions built by the repository's own setup "
        "functions: binpacking2d.experiment.rls/fea x 7 objectives x 2 "
        "encodings; TSPEA1p1revn / TSPFEA1p1revn / RLS on TSP instances (the "
        "examples' wiring); examples/ttp_example_experiment_rls_rs rls/rs; "
        "examples/qap_example_experiment_rls_rs rls/rs; instgen.experiment."
        "cmaes with small inner budgets; dynamic_control experiment_raw.cmaes "
        "and experiment_surrogate.cmaes_raw / cmaes_surrogate on reduced-step "
        "systems - each with set_max_fes(b, force_override=True), b in "
        "{1, 2, 17, 256, 2000}, a fixed seed and a log file, executed TWICE. "
        "Oracle: consumed FEs <= budget; logged solution (own log reader) "
        "passes the independent feasibility oracle of its domain; logged "
        "best f equals an independent re-evaluation of the logged solution; "
        "both executions agree in best f, solution and FE counters; for bin "
        "packing Packing.from_log / from_single_log give the same packing, "
        "objective values and bounds. non-trivial = distinct (setup, "
        "instance, seed, budget) with budget >= 2")
LEVEL_ASSUMPTIONS = [
    "own reader for moptipy log sections (STATE, SETUP, RESULT_X, RESULT_Y)",
    "controller-synthesis and instance-generation values are re-evaluated "
    "with freshly constructed objectives of the package (no closed form)",
    "runs whose right-hand-side budget is exceeded are dropped and counted"]


def REQUIRED(tier):  # noqa: N802
    return {"run_pairs": 60, "pairs[binpacking]": 30, "pairs[tsp]": 8,
            "pairs[ttp]": 6, "pairs[qap]": 6, "pairs[instgen]": 1,
            "pairs[control_raw]": 1, "from_log_checks": 20,
            "repetitions_on_a_slow_machine": 60,
            "binpacking_runs_on_custom_instances": 12,
            "fea_runs_logging_the_h_table": 2,
            "pairs[control_surrogate]": 0 if tier == "quick" else 1}


def plan(tier: str, seed: int):
    if tier == "quick":
        sh = [{"name": f"comb{i}", "engine": "jit",
               "args": {"mode": "comb", "n": 34}, "timeout": 1700}
              for i in range(3)]
        sh.append({"name": "ctrl", "engine": "jit",
                   "args": {"mode": "control", "raw": 1, "surrogate": 0,
                            "instgen": 2}, "timeout": 1700})
        return sh
    sh = [{"name": f"comb{i}", "engine": "jit",
           "args": {"mode": "comb", "n": 400}, "timeout": 3400}
          for i in range(12)]
    for i in range(4):
        sh.append({"name": f"ctrl{i}", "engine": "jit",
                   "args": {"mode": "control", "raw": 4, "surrogate": 1,
                            "instgen": 6}, "timeout": 3400})
    return sh


# -- own log reader -----------------------------------------------------------
from vlib.monitors.clockwarp import slow_machine  # noqa: E402


def read_log(path):
    secs: dict[str, list[str]] = {}
    cur = None
    with open(path, encoding="utf-8") as f:
        for line in f:
            line = line.rstrip("\n")
            if line.startswith("BEGIN_"):
                cur = line[6:]
                secs[cur] = []
            elif line.startswith("END_"):
                cur = None
            elif cur is not None:
                secs[cur].append(line)
    kv = {}
    for name in ("STATE", "SETUP"):
        for ln in secs.get(name, []):
            if ": " in ln:
                k, v = ln.split(": ", 1)
                kv[f"{name}.{k}"] = v
    return secs, kv


def num(s):
    try:
        return int(s)
    except ValueError:
        return float(s)


def first_line_numbers(lines):
    for ln in lines:
        if ln.strip():
            return [num(v) for v in ln.strip().split(";")]
    return []


def load_example(name):
    path = os.path.join(os.environ.get("VERIF_REPO", "/repo"), "examples",
                        name + ".py")
    spec = importlib.util.spec_from_file_location("verif_ex_" + name, path)
    mod = importlib.util.module_from_spec(spec)
    spec.loader.exec_module(mod)
    return mod


class Budget(Exception):
    pass


# -- domain judges: (ctx, kv, secs, live) -> None ---------------------------
def judge_binpacking(ctx, setup, kv, secs, live, case):
    from moptipyapps.binpacking2d.instance import Instance
    from moptipyapps.binpacking2d.packing import Packing
    from moptipyapps.binpacking2d.packing_result import from_single_log
    from vlib.monitors.packing_contracts import objective_classes
    custom = setup.get("custom_desc")
    inst = Instance.from_resource(setup["instance"]) if custom is None \
        else wb.make_real(custom)
    desc = wb.desc_of(inst, "shipped") if custom is None else custom
    nums = first_line_numbers(secs.get("RESULT_Y", []))
    rows = [nums[i:i + 6] for i in range(0, len(nums), 6)]
    k = max(r[1] for r in rows) if rows else 0
    why = po.infeasibility(desc, rows, k)
    if why is not None:
        ctx.violation("logged-solution-infeasible:binpacking",
                      f"logged packing infeasible: {why}", case)
        return
    fname = kv.get("SETUP.f.name")
    want = po.objective_values(desc, rows)[fname]
    got = num(kv["STATE.bestF"])
    if got != want:
        ctx.violation("logged-f-differs-from-reevaluation:binpacking",
                      f"log says bestF={got}, {fname} of the logged packing "
                      f"= {want}", case)
    ly = live.get("y")
    if ly is not None:
        lwhy = po.infeasibility(desc, wb.rows_of(ly), ly.n_bins)
        if lwhy is not None or wb.rows_of(ly) != rows:
            ctx.violation("final-solution-infeasible:binpacking",
                          f"get_copy_of_best_y: {lwhy}; equals logged "
                          f"packing: {wb.rows_of(ly) == rows}", case)
    # the logged packing must be what the encoding makes of the logged x
    xs = first_line_numbers(secs.get("RESULT_X", []))
    if [int(v) for v in live["x"]] != xs:
        ctx.violation("logged-solution-differs-from-live:binpacking",
                      "RESULT_X != process best x", case)
    else:
        from vlib.oracles import ibl
        mrows, mk, _st = ibl.decode(
            desc["W"], desc["H"], desc["items"], xs,
            first_fit=kv.get("SETUP.g.name") == "ibf2")
        if mrows != rows or mk != k:
            ctx.violation("logged-y-is-not-the-decoding-of-logged-x",
                          "RESULT_Y differs from the documented decoding of "
                          "RESULT_X", case)
    # parsing the log back: moptipy's parser wants the experiment layout
    # <algorithm>/<instance>/<algorithm>_<instance>_<seed>.txt
    ctx.count("from_log_checks")
    algo = kv["SETUP.a.name"]
    d = os.path.join(os.path.dirname(setup["log"]), "exp", algo, inst.name)
    os.makedirs(d, exist_ok=True)
    path = os.path.join(
        d, f"{algo}_{inst.name}_{kv['SETUP.p.randSeed(hex)']}.txt")
    shutil.copyfile(setup["log"], path)
    setup = dict(setup, log=path)
    if custom is not None:
        # a user's own instance: the log is parsed with the instance given
        pk = Packing.from_log(setup["log"], inst)
        ctx.count("from_log_with_given_instance")
        if wb.rows_of(pk) != rows or pk.n_bins != k or \
                pk.dtype != inst.dtype or pk.instance is not inst:
            ctx.violation("from_log-packing-differs", "Packing.from_log("
                          "file, instance) != logged packing", case)
            return
        # ... and made into a result record (the route for instances that
        # are not resources): objectives and bin bounds of the record
        from moptipy.evaluation.end_results import EndResult

        from moptipyapps.binpacking2d.packing_result import (
            from_packing_and_end_result,
        )
        fes = int(num(kv["STATE.totalFEs"]))
        er = EndResult(algo, inst.name, fname, kv.get("SETUP.g.name"),
                       setup["seed"], got, int(num(kv["STATE.lastImprovementFE"])),
                       0, fes, 1, None, fes, None)
        pr = from_packing_and_end_result(er, pk)
        ctx.count("result_records_for_custom_instances")
        if dict(pr.objectives) != po.objective_values(desc, rows):
            ctx.violation("from_single_log-objectives-differ",
                          f"record for a custom instance: "
                          f"{dict(pr.objectives)}", case)
        judge_bin_bounds(ctx, dict(pr.bin_bounds), inst, desc, case)
        return
    pk = Packing.from_log(setup["log"])
    if wb.rows_of(pk) != rows or pk.n_bins != k or pk.dtype != inst.dtype \
            or pk.instance is not inst:
        ctx.violation("from_log-packing-differs", "Packing.from_log != "
                      "logged packing", case)
    vals = po.objective_values(desc, rows)
    # parse history: the same process first parses the same log with a
    # caller-chosen objective / bound selection (a documented parameter of
    # from_logs); neither parse may see the other's selection
    if ctx.rng.integers(2):
        from moptipyapps.binpacking2d.packing_result import from_logs
        ocls = objective_classes()
        keys = sorted(ocls)
        # the selection has to contain the run's own objective (the record
        # validates best_f against it); bound values must not exceed the bins
        pick = sorted({fname} | {keys[int(i)] for i in ctx.rng.permutation(
            len(keys))[:int(ctx.rng.integers(0, 3))]})
        mark = "bins.lowerBound.v" + str(int(ctx.rng.integers(1000)))
        got_prs = []
        from_logs(os.path.dirname(setup["log"]), got_prs.append,
                  objectives=tuple(ocls[q] for q in pick),
                  bin_bounds={mark: lambda _i: 1})
        ctx.count("from_logs_with_custom_selection")
        mine = [q for q in got_prs
                if q.end_result.rand_seed == setup["seed"]]
        if len(mine) != 1 or set(mine[0].objectives) != set(pick) or any(
                mine[0].objectives[q] != vals[q] for q in pick) or dict(
                mine[0].bin_bounds) != {mark: 1} or set(
                mine[0].objective_bounds) != {
                    f"{q}.{b}" for q in pick
                    for b in ("lowerBound", "upperBound")}:
            ctx.violation(
                "from_logs-ignores-objective-or-bound-selection",
                f"from_logs(objectives={pick}, bin_bounds={mark}->1) gave " + (
                    f"{dict(mine[0].objectives)} / {dict(mine[0].bin_bounds)}"
                    f" / {sorted(mine[0].objective_bounds)}"
                    if mine else "no result"), case)
    pr = from_single_log(setup["log"])
    if dict(pr.objectives) != vals:
        ctx.violation("from_single_log-objectives-differ",
                      f"{dict(pr.objectives)} vs {vals}", case)
    for key, cls in objective_classes().items():
        o = cls(inst)
        lbk, ubk = f"{key}.lowerBound", f"{key}.upperBound"
        if pr.objective_bounds.get(lbk) != o.lower_bound() or \
                pr.objective_bounds.get(ubk) != o.upper_bound():
            ctx.violation("from_single_log-bounds-differ",
                          f"{key}: {pr.objective_bounds.get(lbk)}.."
                          f"{pr.objective_bounds.get(ubk)} vs live "
                          f"{o.lower_bound()}..{o.upper_bound()}", case)
            break
    er = pr.end_result
    if er.best_f != got or er.total_fes != num(kv["STATE.totalFEs"]) or \
            er.rand_seed != setup["seed"] or er.instance != inst.name or \
            er.objective != fname:
        ctx.violation("from_single_log-end-result-differs",
                      f"best_f {er.best_f}, fes {er.total_fes}, seed "
                      f"{er.rand_seed}", case)
    judge_bin_bounds(ctx, dict(pr.bin_bounds), inst, desc, case)


def judge_bin_bounds(ctx, bb, inst, desc, case):
    A = desc["W"] * desc["H"]
    geo = -(-sum(w * h * r for w, h, r in desc["items"]) // A)
    damv = bb.get("bins.lowerBound.damv")
    if bb.get("bins.lowerBound") != inst.lower_bound_bins or \
            bb.get("bins.lowerBound.geometric") != max(1, geo) or \
            not isinstance(damv, int) or \
            max(max(1, geo), damv) != inst.lower_bound_bins:
        ctx.violation("from_single_log-bin-bounds-differ",
                      f"{bb}; instance lower bound {inst.lower_bound_bins}, "
                      f"ceil(area/bin area) = {geo}", case)


def judge_tsp(ctx, setup, kv, secs, live, case):
    from moptipyapps.tsp.instance import Instance
    inst = Instance.from_resource(setup["instance"])
    m = np.asarray(inst)
    t = first_line_numbers(secs.get("RESULT_Y", []))
    n = inst.n_cities
    if sorted(t) != list(range(n)):
        ctx.violation("logged-solution-infeasible:tsp",
                      "logged tour is not a permutation", case)
        return
    want = sum(int(m[t[i - 1], t[i]]) for i in range(n))
    got = num(kv["STATE.bestF"])
    if got != want:
        ctx.violation("logged-f-differs-from-reevaluation:tsp",
                      f"bestF={got}, tour length={want}", case)


def judge_ttp(ctx, setup, kv, secs, live, case):
    from moptipyapps.ttp.instance import Instance
    inst = Instance.from_resource(setup["instance"])
    n = inst.n_cities
    D = (n - 1) * inst.rounds
    nums = first_line_numbers(secs.get("RESULT_Y", []))
    if len(nums) != n * D or any(abs(v) > n for v in nums):
        ctx.violation("logged-solution-infeasible:ttp",
                      f"{len(nums)} values for a {D}x{n} plan", case)
        return
    plan = [nums[i * n:(i + 1) * n] for i in range(D)]
    cfg = (inst.rounds, inst.home_streak_min, inst.home_streak_max,
           inst.away_streak_min, inst.away_streak_max, inst.separation_min,
           inst.separation_max)
    want = ot.error_count_with_byes(plan, cfg)
    got = num(kv["STATE.bestF"])
    if want is None:
        ctx.violation("logged-solution-infeasible:ttp",
                      "decoded plan is not mutually consistent", case)
    elif got != want:
        ctx.violation("logged-f-differs-from-reevaluation:ttp",
                      f"bestF={got}, documented error count={want}", case)


def judge_qap(ctx, setup, kv, secs, live, case):
    from moptipyapps.qap.instance import Instance
    inst = Instance.from_resource(setup["instance"])
    p = first_line_numbers(secs.get("RESULT_Y", []))
    n = inst.n
    if sorted(p) != list(range(n)):
        ctx.violation("logged-solution-infeasible:qap", "not a permutation",
                      case)
        return
    F = inst.flows.astype(object)
    Dm = inst.distances.astype(object)
    want = sum(int(F[i, j]) * int(Dm[p[i], p[j]]) for i in range(n)
               for j in range(n))
    got = num(kv["STATE.bestF"])
    if got != want:
        ctx.violation("logged-f-differs-from-reevaluation:qap",
                      f"bestF={got}, flow-distance sum={want}", case)


def judge_instgen(ctx, setup, kv, secs, live, case):
    from moptipyapps.binpacking2d.instance import Instance
    from moptipyapps.binpacking2d.instgen.errors_and_hardness import (
        ErrorsAndHardness,
    )
    from moptipyapps.binpacking2d.instgen.instance_space import InstanceSpace
    templ = Instance.from_resource(setup["instance"])
    sp = InstanceSpace(templ)
    txt = "".join(secs.get("RESULT_Y", [])).strip()
    inst = Instance.from_compact_str(txt)
    A = sp.bin_width * sp.bin_height
    area = inst.total_item_area
    why = None
    if inst.name != sp.inst_name or inst.bin_width != sp.bin_width or \
            inst.bin_height != sp.bin_height or inst.n_items != sp.n_items:
        why = "name / bin size / n_items differ from the template"
    elif area < (sp.min_bins - 1) * A + 1 or area > sp.min_bins * A:
        why = f"area {area} does not need exactly {sp.min_bins} bins"
    elif inst.lower_bound_bins != sp.min_bins:
        why = f"lower bound {inst.lower_bound_bins} != {sp.min_bins}"
    if why:
        ctx.violation("logged-solution-infeasible:instgen", why, case)
        return
    x = first_line_numbers(secs.get("RESULT_X", []))
    if any(not -1.0 <= v <= 1.0 for v in x):
        ctx.violation("logged-solution-infeasible:instgen",
                      "x outside [-1,1]", case)
    f = ErrorsAndHardness(sp, setup["inner_fes"], setup["inner_runs"])
    want = f.evaluate([inst])
    got = num(kv["STATE.bestF"])
    if got != want:
        ctx.violation("logged-f-differs-from-reevaluation:instgen",
                      f"bestF={got!r}, fresh ErrorsAndHardness={want!r}",
                      case)


def judge_control(ctx, setup, kv, secs, live, case):
    x = first_line_numbers(secs.get("RESULT_Y", []))
    inst = setup["obj_instance"]
    if len(x) != inst.controller.param_dims or any(
            not (-32.0 <= v <= 32.0) for v in x):
        ctx.violation("logged-solution-infeasible:control",
                      f"{len(x)} parameters / outside [-32,32]", case)
        return
    from moptipyapps.dynamic_control.objective import FigureOfMeritLE
    want = FigureOfMeritLE(inst).evaluate(np.array(x, float))
    got = num(kv["STATE.bestF"])
    if got != want:
        ctx.violation("logged-f-differs-from-reevaluation:control",
                      f"bestF={got!r}, fresh FigureOfMeritLE={want!r}", case)


JUDGES = {"binpacking": judge_binpacking, "tsp": judge_tsp, "ttp": judge_ttp,
          "qap": judge_qap, "instgen": judge_instgen,
          "control_raw": judge_control, "control_surrogate": judge_control}


# -- running -------------------------------------------------------------------
def execute(ctx, build, budget, seed, log, make_y=None):
    """One real execution; returns live facts."""
    ex = build()
    ex.set_max_fes(budget, True)
    ex.set_rand_seed(seed)
    if os.path.exists(log):
        os.remove(log)
    ex.set_log_file(log)
    with ex.execute() as p:
        live = {"best_f": p.get_best_f(), "fes": p.get_consumed_fes(),
                "li": p.get_last_improvement_fe()}
        x = p.create()
        p.get_copy_of_best_x(x)
        live["x"] = x
        if make_y is not None:
            y = make_y()
            p.get_copy_of_best_y(y)
            live["y"] = y
    return live


def same_solution(a, b):
    if isinstance(a, list):
        return a[0].to_compact_str() == b[0].to_compact_str()
    return np.array_equal(np.asarray(a), np.asarray(b)) and getattr(
        a, "n_bins", None) == getattr(b, "n_bins", None)


def run_pair(ctx, domain, setup, build, budget, seed):
    work = os.path.join(os.environ.get("VERIF_HOME", "/verif"), ".work",
                        f"c12-{os.getpid()}")
    os.makedirs(work, exist_ok=True)
    case = {"kind": "pair", "domain": domain, "budget": budget, "seed": seed,
            **{k: v for k, v in setup.items()
               if isinstance(v, (str, int, float, bool, list))}}
    lives = []
    logs = []
    ctx.case()
    try:
        for rep in (0, 1):
            log = os.path.join(work, f"run{rep}.txt")
            setup["log"] = log
            try:
                if rep == 0:
                    lives.append(execute(ctx, build, budget, seed, log,
                                         setup.get("make_y")))
                else:
                    # the repetition runs on a machine a million times
                    # slower: every wall-clock limit that somebody put into
                    # an evaluation-budgeted run fires
                    with slow_machine() as seen:
                        lives.append(execute(ctx, build, budget, seed, log,
                                             setup.get("make_y")))
                    ctx.count("repetitions_on_a_slow_machine")
                    ctx.count("wall_clock_limits_seen_in_fe_budgeted_runs",
                              seen.timers)
            except Budget:
                ctx.count("undecided_pairs_rhs_budget")
                return
            logs.append(read_log(log))
        ctx.count("run_pairs")
        ctx.count(f"pairs[{domain}]")
        ctx.count(f"budget[{budget}]")
        ctx.count(f"setup[{setup['name']}]")
        if budget >= 2:
            ctx.nontrivial(domain, case)
        a, b = lives
        (sa, ka), (sb, kb) = logs
        # budget
        for lv, kv in ((a, ka), (b, kb)):
            if lv["fes"] > budget or num(kv["STATE.totalFEs"]) > budget:
                ctx.violation(f"budget-exceeded:{domain}",
                              f"{lv['fes']} / {kv['STATE.totalFEs']} FEs for "
                              f"budget {budget}", case)
            if num(kv["STATE.totalFEs"]) != lv["fes"] or \
                    num(kv["STATE.bestF"]) != lv["best_f"]:
                ctx.violation(f"log-state-differs-from-process:{domain}",
                              f"log {kv['STATE.bestF']}/"
                              f"{kv['STATE.totalFEs']} vs live "
                              f"{lv['best_f']}/{lv['fes']}", case)
        # replicability
        if a["best_f"] != b["best_f"] or a["fes"] != b["fes"] or \
                a["li"] != b["li"] or not same_solution(a["x"], b["x"]) or \
                sa.get("RESULT_Y") != sb.get("RESULT_Y") or \
                sa.get("RESULT_X") != sb.get("RESULT_X") or \
                sa.get("PROGRESS", [None])[1:] and [
                    ln.split(";")[::2] for ln in sa["PROGRESS"][1:]] != [
                    ln.split(";")[::2] for ln in sb["PROGRESS"][1:]]:
            ctx.violation(f"not-replicable:{domain}:{setup['name']}",
                          f"same setup and seed: best f {a['best_f']!r} vs "
                          f"{b['best_f']!r}, FEs {a['fes']} vs {b['fes']}, "
                          f"last improvement {a['li']} vs {b['li']}", case)
        setup["log"] = os.path.join(work, "run0.txt")
        JUDGES[domain](ctx, setup, ka, sa, a, case)
    finally:
        shutil.rmtree(work, ignore_errors=True)


BUDGETS = [1, 2, 17, 256, 2000]
BP_INST = ("a01", "a04", "a10", "a20", "beng01", "beng03", "beng07",
           "cl01_020_01", "cl03_020_02", "cl07_040_01", "cl10_020_05",
           "cl04_020_01", "cl06_020_03", "cl02_040_01")
TSP_INST = ("burma14", "ulysses16", "gr17", "gr21", "ulysses22", "gr24",
            "fri26", "bays29", "br17", "ftv33")
TSP_SYM = ("burma14", "ulysses16", "gr17", "gr21", "ulysses22", "gr24",
           "fri26", "bays29")


CUSTOM_BP = (
    {"name": "cust_portrait", "W": 10, "H": 20, "cls": "custom",
     "items": [[14, 3, 2], [4, 17, 1], [5, 5, 3], [10, 2, 2], [3, 12, 2]]},
    {"name": "cust_landscape", "W": 24, "H": 9, "cls": "custom",
     "items": [[7, 20, 2], [9, 9, 1], [4, 4, 4], [2, 11, 2], [24, 1, 1]]},
    {"name": "cust_square", "W": 12, "H": 12, "cls": "custom",
     "items": [[12, 5, 2], [7, 7, 2], [5, 12, 1], [3, 3, 5]]},
)


def comb_shard(ctx, count):
    from moptipy.algorithms.so.rls import RLS
    from moptipy.api.execution import Execution
    from moptipy.operators.permutations.op0_shuffle import Op0Shuffle
    from moptipy.operators.permutations.op1_swap2 import Op1Swap2
    from moptipy.spaces.permutations import Permutations

    import moptipyapps.binpacking2d.experiment as bpe
    from moptipyapps.binpacking2d.encodings.ibl_encoding_1 import (
        ImprovedBottomLeftEncoding1,
    )
    from moptipyapps.binpacking2d.encodings.ibl_encoding_2 import (
        ImprovedBottomLeftEncoding2,
    )
    from moptipyapps.binpacking2d.instance import Instance as BPI
    from moptipyapps.qap.instance import Instance as QI
    from moptipyapps.tsp.ea1p1_revn import TSPEA1p1revn
    from moptipyapps.tsp.fea1p1_revn import TSPFEA1p1revn
    from moptipyapps.tsp.instance import Instance as TI
    from moptipyapps.tsp.tour_length import TourLength
    from moptipyapps.ttp.instance import Instance as TTI
    from vlib.monitors.packing_contracts import objective_classes
    rng = ctx.rng
    ttp_ex = load_example("ttp_example_experiment_rls_rs")
    qap_ex = load_example("qap_example_experiment_rls_rs")
    objs = objective_classes()
    # option corners, every shard: the FEA logging its frequency table with
    # budgets that end before / right after the main loop starts
    for b in (1, 2, 3):
        nm = str(rng.choice(["gr17", "burma14", "ulysses16"]))
        ti = TI.from_resource(nm)

        def build0(ti=ti):
            sp = Permutations.standard(ti.n_cities)
            return (Execution().set_solution_space(sp)
                    .set_algorithm(TSPFEA1p1revn(ti, True))
                    .set_objective(TourLength(ti)))
        sd = int(rng.integers(0, 1 << 62))
        ctx.count("fea_runs_logging_the_h_table")
        run_pair(ctx, "tsp", {"name": "tsp.fea", "instance": nm, "seed": sd},
                 build0, b, sd)
    for it in range(count):
        budget = int(rng.choice(BUDGETS))
        seed = int(rng.integers(0, 1 << 62))
        k = it % 10
        if k < 5:
            name = str(rng.choice(BP_INST))
            okey = sorted(objs)[int(rng.integers(len(objs)))]
            enc = ImprovedBottomLeftEncoding1 if rng.integers(2) else \
                ImprovedBottomLeftEncoding2
            alg = "rls" if rng.integers(2) else "fea"
            if alg == "fea" and okey in (
                    "binCountAndLastSmall", "binCountAndSmall",
                    "binCountAndLastSkyline", "binCountAndLowestSkyline"):
                inst = BPI.from_resource(name)
                if inst.n_items * inst.bin_width * inst.bin_height > 3e7:
                    alg = "rls"     # the FEA's table needs ub-lb+1 entries
            fn = getattr(bpe, alg)
            from moptipyapps.binpacking2d.packing import Packing
            if it % 5 in (3, 4):
                # the same bundled setups on a user's own instance (portrait
                # bin, items that fit in one orientation only)
                cd = dict(CUSTOM_BP[int(rng.choice([0, 0, 0, 1, 2]))])
                ctx.count("binpacking_runs_on_custom_instances")
                setup = {"name": f"binpacking2d.experiment.{alg}",
                         "instance": cd["name"], "objective": okey,
                         "encoding": enc.__name__, "seed": seed,
                         "custom_desc": cd,
                         "make_y": lambda cd=cd: Packing(wb.make_real(cd))}
                run_pair(ctx, "binpacking", setup,
                         lambda cd=cd: fn(wb.make_real(cd), enc, objs[okey]),
                         budget, seed)
                continue
            setup = {"name": f"binpacking2d.experiment.{alg}",
                     "instance": name, "objective": okey,
                     "encoding": enc.__name__, "seed": seed,
                     "make_y": lambda: Packing(BPI.from_resource(name))}
            run_pair(ctx, "binpacking", setup,
                     lambda: fn(BPI.from_resource(name), enc, objs[okey]),
                     budget, seed)
        elif k < 7:
            alg = str(rng.choice(["ea", "fea", "rls"]))
            name = str(rng.choice(TSP_SYM if alg != "rls" else TSP_INST))
            inst = TI.from_resource(name)
            if alg == "fea" and inst.tour_length_upper_bound > 5_000_000:
                alg = "ea"

            logh = bool(alg == "fea" and rng.integers(2))
            if logh:
                ctx.count("fea_runs_logging_the_h_table")
                if rng.integers(3):
                    # the table of a run that never enters its main loop
                    budget = int(rng.choice([1, 1, 2]))

            def build(alg=alg, inst=inst, logh=logh):
                sp = Permutations.standard(inst.n_cities)
                a = {"ea": lambda: TSPEA1p1revn(inst),
                     "fea": lambda: TSPFEA1p1revn(inst, logh),
                     "rls": lambda: RLS(Op0Shuffle(sp), Op1Swap2())}[alg]()
                return (Execution().set_solution_space(sp).set_algorithm(a)
                        .set_objective(TourLength(inst)))
            setup = {"name": f"tsp.{alg}", "instance": name, "seed": seed}
            run_pair(ctx, "tsp", setup, build, budget, seed)
        elif k == 7:
            name = str(rng.choice(["circ4", "circ6", "circ8", "circ10",
                                   "circ12"]))
            fn = ttp_ex.rls if rng.integers(2) else ttp_ex.rs
            setup = {"name": f"examples.ttp.{fn.__name__}", "instance": name,
                     "seed": seed}
            run_pair(ctx, "ttp", setup,
                     lambda: fn(TTI.from_resource(name)), budget, seed)
        elif k == 8:
            name = str(rng.choice(["nug12", "chr12a", "had12", "tai12a",
                                   "esc16a", "scr12", "rou12"]))
            fn = qap_ex.rls if rng.integers(2) else qap_ex.rs
            setup = {"name": f"examples.qap.{fn.__name__}", "instance": name,
                     "seed": seed}
            run_pair(ctx, "qap", setup,
                     lambda: fn(QI.from_resource(name)), budget, seed)
        else:
            name = str(rng.choice(TSP_SYM))
            alg = "ea" if rng.integers(2) else "fea"
            inst = TI.from_resource(name)
            if alg == "fea" and inst.tour_length_upper_bound > 5_000_000:
                alg = "ea"

            logh = bool(alg == "fea" and rng.integers(2))
            if logh:
                ctx.count("fea_runs_logging_the_h_table")
                if rng.integers(3):
                    # the table of a run that never enters its main loop
                    budget = int(rng.choice([1, 1, 2]))

            def build2(alg=alg, inst=inst, logh=logh):
                sp = Permutations.standard(inst.n_cities)
                a = TSPEA1p1revn(inst) if alg == "ea" else \
                    TSPFEA1p1revn(inst, logh)
                return (Execution().set_solution_space(sp).set_algorithm(a)
                        .set_objective(TourLength(inst)))
            setup = {"name": f"tsp.{alg}", "instance": name, "seed": seed}
            run_pair(ctx, "tsp", setup, build2, budget, seed)
        if it % 12 == 0:
            ctx.sample({"setup": setup["name"], "instance": setup["instance"],
                        "budget": budget, "seed": seed})


def control_shard(ctx, n_raw, n_sur, n_gen):
    import moptipyapps.binpacking2d.instgen.experiment as ige
    import moptipyapps.dynamic_control.experiment_raw as er
    import moptipyapps.dynamic_control.experiment_surrogate as es
    from moptipyapps.binpacking2d.instgen.problem import Problem
    rng = ctx.rng
    # instance generation with small inner budgets (module constants are
    # looked up when the setup function runs)
    for _ in range(n_gen):
        inner_fes = int(rng.integers(5, 40))
        ige.INNER_MAX_FES = inner_fes
        ige.INNER_RUNS = 1
        name = str(rng.choice(["beng01", "cl01_020_01", "cl03_020_01",
                               "cl07_020_01"]))
        slack = float(rng.choice([0.25, 0.125]))
        budget = int(rng.choice([1, 2, 6, 12]))
        seed = int(rng.integers(0, 1 << 62))
        setup = {"name": "instgen.experiment.cmaes", "instance": name,
                 "slack": slack, "inner_fes": inner_fes, "inner_runs": 1,
                 "seed": seed}
        run_pair(ctx, "instgen", setup,
                 lambda: ige.cmaes(Problem(name, slack)), budget, seed)
    # controller synthesis on reduced-step systems
    rhs = {"n": 0}

    def guard(eq):
        def f(state, t, control, out):
            rhs["n"] += 1
            if rhs["n"] > 4_000_000:
                raise Budget
            eq(state, t, control, out)
        return f

    def reduce(system):
        if not getattr(system, "_verif_reduced", False):
            setattr(system, "training_steps", 12)
            setattr(system, "training_time", 2.0)
            setattr(system, "training_starting_states",
                    np.array(system.training_starting_states[0:2]))
            setattr(system, "_verif_reduced", True)

    makers = list(er.make_instances())
    for _ in range(n_raw):
        mk = makers[int(rng.integers(len(makers)))]
        inst = mk()
        if "min_ann" in inst.controller.name:
            continue
        reduce(inst.system)
        budget = int(rng.choice([1, 2, 5, 9]))
        seed = int(rng.integers(0, 1 << 62))
        rhs["n"] = 0
        setup = {"name": "dynamic_control.experiment_raw.cmaes",
                 "instance": str(inst), "seed": seed, "obj_instance": inst}
        run_pair(ctx, "control_raw", setup, lambda: er.cmaes(inst), budget,
                 seed)
    smakers = list(es.make_instances())
    for i in range(n_raw + n_sur):
        mk = smakers[int(rng.integers(0, 4))]      # Stuart-Landau ones
        inst = mk()
        reduce(inst.system)
        seed = int(rng.integers(0, 1 << 62))
        if i < n_raw:
            budget = int(rng.choice([1, 3, 6]))
            setup = {"name": "dynamic_control.experiment_surrogate."
                     "cmaes_raw", "instance": str(inst), "seed": seed,
                     "obj_instance": inst}
            d11_pair(ctx, "control_raw", setup, lambda: es.cmaes_raw(inst),
                     budget, seed)
        else:
            budget = int(rng.choice([4, 5]))
            setup = {"name": "dynamic_control.experiment_surrogate."
                     "cmaes_surrogate", "instance": str(inst), "seed": seed,
                     "obj_instance": inst}
            d11_pair(ctx, "control_surrogate", setup,
                     lambda: es.cmaes_surrogate(inst, 2, 6, 5, False),
                     budget, seed)
    _ = guard


def d11_pair(ctx, domain, setup, build, budget, seed):
    """Setups that hit the dependency defect D11 when a log file is used."""
    import moptipy.algorithms.so.vector.cmaes_lib as cl
    case = {"kind": "pair", "domain": domain, "budget": budget, "seed": seed,
            "name": setup["name"], "instance": setup["instance"]}
    # 1) unshimmed: the crash must be exactly the known mechanism
    work = os.path.join(os.environ.get("VERIF_HOME", "/verif"), ".work",
                        f"c12d-{os.getpid()}")
    os.makedirs(work, exist_ok=True)
    try:
        try:
            execute(ctx, build, budget, seed, os.path.join(work, "u.txt"))
            ctx.count("d11_unshimmed_run_completed")
        except TypeError as e:
            import traceback
            tb = traceback.extract_tb(e.__traceback__)
            in_cmaes = any("cmaes_lib" in fr.filename for fr in tb)
            ctx.count("d11_unshimmed_typeerror")
            if in_cmaes:
                ctx.violation(
                    "dep-moptipy-bipop-cmaes-restart-log-typeerror",
                    f"{setup['name']} with a log file: {type(e).__name__}: "
                    f"{str(e)[:200]} raised from moptipy cmaes_lib at the "
                    "end of solve()", case)
            else:
                ctx.violation(f"run-raises:{domain}",
                              f"{type(e).__name__}: {e}", case)
    finally:
        shutil.rmtree(work, ignore_errors=True)
    # 2) shimmed: judge everything else
    orig = cl.num_to_str

    def shim(v):
        if isinstance(v, (bool, np.bool_)):
            return "T" if v else "F"
        if isinstance(v, np.integer):
            v = int(v)
        elif isinstance(v, np.floating):
            v = float(v)
        return orig(v)

    cl.num_to_str = shim
    try:
        ctx.count("d11_shimmed_pairs")
        run_pair(ctx, domain, setup, build, budget, seed)
    finally:
        cl.num_to_str = orig


def run_shard(ctx, args):
    if args["mode"] == "comb":
        comb_shard(ctx, args["n"])
    else:
        control_shard(ctx, args["raw"], args["surrogate"], args["instgen"])


def replay(ctx, case):
    ctx.case()
    ctx.note("C12 witnesses carry setup, instance, seed and budget; re-run "
             "the shard (replay of __shard__ cases) to reproduce")
    _ = math
