"""C10 - controlled-system simulation terminates, bounded, self-consistent."""
from __future__ import annotations

import math

import numpy as np

PID = "C10"
RULE = ("programs = (equations, controller) pairs: the three bundled systems "
        "x bundled controller families x parameter vectors (mostly moderate, "
        "some at +-32); linear test systems s' = A s + B u with closed-form "
        "solutions (rotation + decay, closed loop with linear controllers) "
        "against expm; controllers that blow up immediately / after t0 / "
        "return NaN, +-inf, 9.9e9 / grow with the state; state blow-up "
        "x' = x^2; steps in {10, 11, 50, 500, 5000}; time limits 0.5..50; "
        "start states incl. zeros and 1e9. Every run_ode call is wrapped: "
        "RHS evaluations are counted (bounded-progress budget), RK45 "
        "constructions (= integration cycles) are counted, the result is "
        "judged by the postcondition of the property text, J / T / "
        "differentials are recomputed. non-trivial = distinct (program, "
        "params, start, steps, T) whose run needed >= 2 integration cycles "
        "or ended in a failure row or has an analytic reference")
LEVEL_ASSUMPTIONS = [
    "termination is decided as bounded progress: <= 5 integration cycles and "
    "an RHS-evaluation budget; runs that exceed the budget are dropped and "
    "counted as undecided (never as held)",
    "analytic comparison tolerance 5e-2 relative to max |state| (RK45 "
    "rtol=1e-3; wrong time grid or interpolator gives O(1))"]
REQUIRED = {"multi_control_runs": 20, "direct_j_tables": 300,
            "multi_run_ode_results": 60, "hostile[glitch]": 5,
            "mixed_scale_runs": 30,
            "direct_j_control_dims[2]": 50, "runs_judged": 300,
            "full_length_results": 150,
            "failure_rows": 20, "multi_cycle_runs": 20,
            "analytic_comparisons": 30, "j_recomputed": 200,
            "control_entries_rechecked": 5000}
RHS_BUDGET = 3_000_000


def plan(tier: str, seed: int):
    if tier == "quick":
        return [{"name": f"s{i}", "engine": "jit", "args": {"n": 130},
                 "timeout": 1700} for i in range(4)]
    return [{"name": f"s{i}", "engine": "jit", "args": {"n": 2500},
             "timeout": 3400} for i in range(16)]


class Budget(Exception):
    pass


class Counter:
    def __init__(self):
        self.rhs = 0
        self.cycles = 0


CNT = Counter()


def install():
    """Count RK45 constructions inside ode.run_ode (module global lookup)."""
    import moptipyapps.dynamic_control.ode as ode
    if getattr(ode, "_verif_rk", False):
        return
    orig = ode.RK45

    class CountingRK45(orig):  # type: ignore
        def __init__(self, *a, **k):
            CNT.cycles += 1
            super().__init__(*a, **k)

    ode.RK45 = CountingRK45
    ode._verif_rk = True


def wrap_eq(eq):
    def f(state, t, control, out):
        CNT.rhs += 1
        if CNT.rhs > RHS_BUDGET:
            raise Budget
        eq(state, t, control, out)
    return f


# -- program library ---------------------------------------------------------
def lin_system(A, B):
    A = np.array(A, float)
    B = np.array(B, float)

    def eq(state, t, control, out):
        out[:] = A @ state + B * control[0]
    return eq


def ctrl_zero(state, t, params, out):
    out[0] = 0.0


def ctrl_linear(state, t, params, out):
    out[0] = float(np.dot(state, params))


def make_bad_ctrl(kind, t0):
    def c(state, t, params, out):
        if kind == "now":
            out[0] = 1e11
        elif kind == "after":
            out[0] = 1e11 if t > t0 else 0.1 * state[0]
        elif kind == "nan":
            out[0] = math.nan if t > t0 else 0.0
        elif kind == "inf":
            out[0] = math.inf if t > t0 else 0.0
        elif kind == "-inf":
            out[0] = -math.inf if t > t0 else 0.0
        elif kind == "9.9e9":
            out[0] = 9.9e9
        elif kind == "grow":
            out[0] = 50.0 * state[0] + 10.0 * state[0] ** 3
        elif kind == "nan-at-0":
            out[0] = math.nan
    return c


def ctrl_time_dependent(state, t, params, out):
    out[0] = params[2] * math.sin(params[3] * t) + params[0] * state[0] \
        + params[1] * state[1]


class Shrinking:
    """Stateful hostile controller: fails earlier in every new cycle."""

    def __init__(self, tmax):
        self.fail = 0.5 * tmax
        self.last = 0.0

    def __call__(self, state, t, params, out):
        if t < self.last - 1e-12 and t == 0.0:
            self.fail *= 0.3
        self.last = t
        out[0] = 1e11 if t > self.fail else 0.0


def eq_square(state, t, control, out):
    out[0] = state[0] ** 2
    out[1] = -state[1] + control[0]


def judge_result(ctx, res, start, steps, tmax, ctrl, params, cdim, case):
    n = len(start)
    dim = n + cdim + 1
    if not isinstance(res, np.ndarray) or res.ndim != 2 \
            or res.shape[1] != dim:
        ctx.violation("result-shape", f"shape {getattr(res, 'shape', None)}",
                      case)
        return None
    if res.shape[0] == 1:
        ok = (np.array_equal(res[0, :n], start)
              and np.all(res[0, n:-1] == 1e100) and res[0, -1] == 0.0)
        if not ok:
            ctx.violation("failure-row-malformed", f"{res.tolist()}", case)
        ctx.count("failure_rows")
        return "failure"
    if res.shape[0] != steps:
        ctx.violation("row-count",
                      f"{res.shape[0]} rows, requested {steps}", case)
        return None
    ctx.count("full_length_results")
    t = res[:, -1]
    if t[0] != 0.0:
        ctx.violation("time-does-not-start-at-0", f"t[0]={t[0]}", case)
    if not np.all(np.diff(t) > 0):
        ctx.violation("time-not-strictly-increasing", "diff(t) <= 0", case)
    if not t[-1] <= tmax:
        ctx.violation("time-exceeds-limit", f"t[-1]={t[-1]} > {tmax}", case)
    if CNT.cycles == 1 and t[-1] != tmax:
        # documented: a well-behaved run covers the closed interval
        # [0, max_time]; the limit is only shortened in a further cycle
        # the property only demands t[-1] <= limit: recorded, not judged
        ctx.count("single_cycle_runs_ending_before_the_limit")
    if not np.array_equal(res[0, :n], start):
        ctx.violation("first-row-not-start-state",
                      f"{res[0, :n].tolist()} vs {list(start)}", case)
    body = res[:, :-1]
    if not (np.all(np.isfinite(res)) and np.all(np.abs(body) < 1e10)):
        ctx.violation("values-outside-sane-range",
                      f"max |value| = {np.nanmax(np.abs(body))}", case)
        return "full"
    # control entries = controller re-evaluated on the row's state and time
    out = np.empty(cdim)
    idx = range(steps) if steps <= 60 else sorted(
        {0, 1, 2, steps - 1, steps - 2}
        | {int(v) for v in ctx.rng.integers(0, steps, 40)})
    for i in idx if ctrl is not None else ():
        out[:] = np.nan
        ctrl(res[i, :n].copy(), float(t[i]), params, out)
        ctx.count("control_entries_rechecked")
        if out.tobytes() != res[i, n:-1].tobytes():
            ctx.violation("control-entry-differs-from-controller",
                          f"row {i}: stored {res[i, n:-1].tolist()}, "
                          f"controller gives {out.tolist()}", case)
            break
    return "full"


def judge_j(ctx, res, n, use, gamma, case):
    from moptipyapps.dynamic_control.ode import (
        diff_from_ode,
        j_from_ode,
        t_from_ode,
    )
    j = j_from_ode(res, n, use, gamma)
    ctx.count("j_recomputed")
    if res.shape[0] <= 1:
        if j != 1e200:
            ctx.violation("j-of-failure-row", f"J = {j!r}", case)
        return
    u = n if use <= 0 else use
    cdim = res.shape[1] - 1 - n
    terms = []
    for i in range(res.shape[0] - 1):
        w = res[i + 1, -1] - res[i, -1]
        for c in range(cdim):
            terms.append(gamma * w * res[i, n + c] ** 2)
        if i >= 1:
            for d in range(u):
                terms.append(w * res[i, d] ** 2)
    want = math.fsum(terms) / res[-1, -1]
    if not (j >= 0.0):
        ctx.violation("j-negative-or-nan", f"J = {j!r}", case)
    if not (abs(j - want) <= 1e-9 * max(1.0, abs(want))):
        ctx.violation("j-differs-from-documented-formula",
                      f"j_from_ode = {j!r}, recomputed {want!r}", case)
    if t_from_ode(res) != res[-1, -1]:
        ctx.violation("t-from-ode", "t_from_ode != last time", case)
    sc, df = diff_from_ode(res, n)
    want_df = (res[1:, :n] - res[:-1, :n]) / (
        res[1:, -1] - res[:-1, -1])[:, None]
    if sc.shape != (res.shape[0] - 1, n + cdim) or not np.array_equal(
            sc, res[:-1, :-1]) or not np.allclose(df, want_df, rtol=1e-12,
                                                  atol=0.0, equal_nan=True):
        ctx.violation("diff-from-ode", "differs from finite differences",
                      case)


def run_case(ctx, prog, start, steps, tmax, params, case, analytic=None,
             use=-1, gamma=0.1, recheck_control=True):
    from moptipyapps.dynamic_control.ode import run_ode
    install()
    eq, ctrl, cdim = prog
    CNT.rhs = 0
    CNT.cycles = 0
    ctx.case()
    start = np.array(start, float)
    s0 = start.copy()
    try:
        res = run_ode(start, wrap_eq(eq), ctrl, params, cdim, steps, tmax)
    except Budget:
        ctx.count("undecided_runs_rhs_budget")
        return
    ctx.count("runs_judged")
    ctx.count("rhs_evaluations", CNT.rhs)
    ctx.seen_max("max_rhs_evaluations_per_run", CNT.rhs)
    ctx.seen_max("max_integration_cycles", CNT.cycles)
    if CNT.cycles > 40:
        # termination is decided on logical steps: how often the integrator
        # may be restarted is the implementation's business (the pinned tree
        # stops after 5), several dozen restarts are no bounded progress
        ctx.violation("no-bounded-progress-integration-restarts",
                      f"{CNT.cycles} RK45 integrations in one run_ode call",
                      case)
    if CNT.cycles >= 2:
        ctx.count("multi_cycle_runs")
    if start.tobytes() != s0.tobytes():
        ctx.violation("run_ode-modifies-start-state", "start changed", case)
    kind = judge_result(ctx, res, s0, steps, tmax,
                        ctrl if recheck_control else None, params, cdim, case)
    if kind is None:
        return
    judge_j(ctx, res, len(s0), use, gamma, case)
    if kind == "full" and analytic is not None:
        ctx.count("analytic_comparisons")
        want = analytic(res[:, -1])
        got = res[:, :len(s0)]
        scale = max(1e-9, float(np.max(np.abs(want))))
        err = float(np.max(np.abs(got - want))) / scale
        # RK45 (rtol 1e-3) accumulates a phase error of ~3e-4 per radian of
        # rotation (calibrated on 1500 runs of the unchanged tree: worst
        # 0.045 at ~150 rad); the tolerance keeps a factor >= 4 above that
        rot, growth = case.get("rot", 0.0), case.get("growth", 0.0)
        tol = 0.01 + 0.0015 * rot + 0.003 * max(0.0, growth)
        ctx.seen_max("max_analytic_error_over_tolerance_percent",
                     int(100 * err / tol))
        if not err <= tol:
            ctx.violation("state-differs-from-analytic-solution",
                          f"max relative error {err:.3g} > {tol:.3g} "
                          f"(steps={steps}, T={res[-1, -1]:.4g}, "
                          f"{rot:.1f} rad of rotation)", case)
    if CNT.cycles >= 2 or kind == "failure" or analytic is not None:
        ctx.nontrivial(case)


def expm_solution(M, s0):
    from scipy.linalg import expm
    M = np.array(M, float)
    s0 = np.array(s0, float)

    def sol(ts):
        return np.array([expm(M * float(t)) @ s0 for t in ts])
    return sol


def bundled(ctx, rng, it):
    from checks import C16
    dims = int(rng.choice([2, 3]))
    sysm = C16.systems()[dims]
    cs = C16.controllers_for(dims)
    fam = str(rng.choice(["linear", "quadratic", "cubic", "partially_linear",
                          "peaks", "predefined", "ann"]))
    if fam == "ann":
        from moptipyapps.dynamic_control.controllers.ann import anns
        lst = list(anns(sysm))
        ctrl = lst[int(rng.integers(len(lst)))]
    else:
        c = cs[fam]
        ctrl = c[int(rng.integers(len(c)))] if isinstance(c, list) else c
    scale = float(rng.choice([0.1, 1.0, 1.0, 4.0, 32.0]))
    params = rng.uniform(-scale, scale, ctrl.param_dims)
    pool = np.vstack([sysm.training_starting_states,
                      sysm.test_starting_states])
    start = pool[int(rng.integers(len(pool)))].copy()
    if rng.integers(6) == 0:
        start = start * float(rng.choice([0.0, 10.0, 1e3]))
    steps = int(rng.choice([10, 11, 50, 500]))
    tmax = float(rng.choice([0.5, 2.0, 5.0]))
    case = {"kind": "bundled", "dims": dims, "ctrl": ctrl.name,
            "params": [float(v) for v in params],
            "start": [float(v) for v in start], "steps": steps, "tmax": tmax}
    run_case(ctx, (sysm.equations, ctrl.controller, sysm.control_dims),
             start, steps, tmax, params, case, use=sysm.state_dims_in_j,
             gamma=sysm.gamma)
    ctx.count(f"family[{fam}]")


def linear_analytic(ctx, rng):
    th = float(rng.uniform(0.2, 3.0))
    dec = float(rng.uniform(0.0, 0.6))
    A = [[-dec, -th], [th, -dec]]
    B = [0.0, 1.0]
    closed = bool(rng.integers(2))
    K = rng.uniform(-0.5, 0.5, 2) if closed else np.zeros(2)
    s0 = rng.uniform(-2, 2, 2)
    if not np.any(s0):
        s0[0] = 1.0
    steps = int(rng.choice([10, 11, 50, 500, 5000]))
    tmax = float(rng.choice([0.5, 2.0, 10.0, 50.0]))
    M = np.array(A) + np.outer(B, K)
    ev = np.linalg.eigvals(M)
    if max(ev.real) * tmax > 15 or max(abs(ev.imag)) * tmax > 80:
        ctx.count("analytic_case_outside_well_behaved_regime_skipped")
        return
    case = {"kind": "linear", "A": A, "K": [float(v) for v in K],
            "start": [float(v) for v in s0], "steps": steps, "tmax": tmax,
            "rot": float(max(abs(ev.imag)) * tmax),
            "growth": float(max(ev.real) * tmax)}
    run_case(ctx, (lin_system(A, B), ctrl_linear, 1), s0, steps, tmax, K,
             case, analytic=expm_solution(M, s0))


def mixed_scale(ctx, rng):
    """Decoupled blocks of very different magnitude (unnormalised physical
    units): a slowly decaying coordinate of 1e4..5e8 next to an oscillator
    of amplitude ~0.01. Each block is compared with its own closed form,
    relative to its OWN amplitude."""
    from moptipyapps.dynamic_control.ode import run_ode
    big = float(rng.choice([1e4, 1e6, 1e8, 5e8]))
    dec = float(rng.uniform(0.02, 0.2))
    om = float(rng.uniform(0.3, 1.0))
    amp = float(rng.choice([0.01, 0.05, 1.0]))
    tmax = float(rng.choice([5.0, 10.0, 30.0]))
    steps = int(rng.choice([50, 500, 1500]))
    A = [[-dec, 0.0, 0.0], [0.0, 0.0, -om], [0.0, om, 0.0]]
    start = [big, amp, 0.0]
    case = {"kind": "mixed_scale", "big": big, "dec": dec, "om": om,
            "amp": amp, "tmax": tmax, "steps": steps}
    ctx.case()
    ctx.count("mixed_scale_runs")
    install()
    CNT.rhs = 0
    CNT.cycles = 0
    try:
        res = run_ode(np.array(start), wrap_eq(lin_system(A, [0, 0, 0])),
                      ctrl_zero, None, 1, steps, tmax)
    except Budget:
        ctx.count("undecided_runs_rhs_budget")
        return
    if judge_result(ctx, res, start, steps, tmax, ctrl_zero, None, 1,
                    case) != "full":
        return
    t = res[:, -1]
    want_big = big * np.exp(-dec * t)
    want_osc = np.stack([amp * np.cos(om * t), amp * np.sin(om * t)], 1)
    e_big = float(np.max(np.abs(res[:, 0] - want_big))) / big
    e_osc = float(np.max(np.abs(res[:, 1:3] - want_osc))) / amp
    tol = 0.02 + 0.003 * om * tmax
    ctx.seen_max("max_mixed_scale_error_over_tolerance_percent",
                 int(100 * max(e_big, e_osc) / tol))
    if not (e_big <= tol and e_osc <= tol):
        ctx.violation(
            "state-differs-from-analytic-solution",
            f"decoupled blocks: error {e_big:.3g} of the large coordinate "
            f"({big:g}), {e_osc:.3g} of the oscillator's amplitude ({amp:g})"
            f" > {tol:.3g} (T={tmax}, {om * tmax:.1f} rad)", case)


def multi_control(ctx, rng):
    """Linear system with 2-3 control outputs that differ per channel."""
    n = int(rng.choice([2, 3]))
    c = int(rng.choice([2, 3]))
    A = (rng.uniform(-0.5, 0.5, (n, n)) - 0.4 * np.eye(n)).tolist()
    B = rng.uniform(-0.5, 0.5, (n, c))
    K = rng.uniform(-0.4, 0.4, (c, n))
    off = rng.uniform(-1.0, 1.0, c)

    def eq(state, t, control, out):
        out[:] = np.array(A) @ state + B @ control

    def ctrl(state, t, params, out):
        out[:] = K @ state + off * math.sin(0.7 * t)

    start = [float(v) for v in rng.uniform(-1, 1, n)]
    steps = int(rng.choice([10, 11, 50]))
    tmax = float(rng.choice([0.5, 2.0, 5.0]))
    use = int(rng.integers(0, n + 1)) - (1 if rng.integers(3) == 0 else 0)
    gamma = float(rng.choice([0.1, 0.5, 2.0]))
    case = {"kind": "multi", "A": A, "B": B.tolist(), "K": K.tolist(),
            "off": off.tolist(), "start": start, "steps": steps,
            "tmax": tmax, "use": use, "gamma": gamma}
    ctx.count("multi_control_runs")
    run_case(ctx, (eq, ctrl, c), start, steps, tmax, None, case, use=use,
             gamma=gamma)


def multi_entry(ctx, rng):
    """The other public entry point: multi_run_ode with test and training
    starting states that get different numbers of rows and time limits."""
    from moptipyapps.dynamic_control.ode import (
        j_from_ode,
        multi_run_ode,
        t_from_ode,
    )
    th = float(rng.uniform(0.2, 2.0))
    A = [[-0.3, -th], [th, -0.3]]
    K = rng.uniform(-0.4, 0.4, 2)
    prog = (lin_system(A, [0.0, 1.0]), ctrl_linear, 1)
    tests = [rng.uniform(-2, 2, 2) for _ in range(int(rng.integers(0, 3)))]
    trains = [rng.uniform(-2, 2, 2) for _ in range(int(rng.integers(1, 4)))]
    ts, tt = int(rng.choice([7, 10, 33, 60])), float(rng.choice([1.0, 6.0]))
    rs, rt = int(rng.choice([5, 12, 25, 61])), float(rng.choice([0.5, 4.0]))
    use = int(rng.choice([-1, 1, 2]))
    gamma = float(rng.choice([0.1, 1.5]))
    got = []
    got2 = []
    two = bool(rng.integers(2))
    coll = [lambda i, ode, j, t: got.append((i, ode, j, t)),
            lambda i, ode, j, t: got2.append(i)] if two else (
        lambda i, ode, j, t: got.append((i, ode, j, t)))
    case = {"kind": "multi_entry", "A": A, "K": [float(v) for v in K],
            "tests": [[float(v) for v in q] for q in tests],
            "trains": [[float(v) for v in q] for q in trains],
            "ts": ts, "tt": tt, "rs": rs, "rt": rt, "use": use,
            "gamma": gamma, "two": two}
    ctx.case()
    ctx.count("multi_run_ode_calls")
    multi_run_ode(tests, trains, coll, prog[0], prog[1], K, 1, ts, tt, rs,
                  rt, use, gamma)
    want = [(q, ts, tt) for q in tests] + [(q, rs, rt) for q in trains]
    if [g[0] for g in got] != list(range(len(want))) or (
            two and got2 != list(range(len(want)))):
        ctx.violation("multi-run-indices",
                      f"collector saw indices {[g[0] for g in got]} for "
                      f"{len(want)} starting states", case)
        return
    for (i, ode, j, t), (q, steps, tmax) in zip(got, want):
        ctx.count("multi_run_ode_results")
        kind = judge_result(ctx, ode, q, steps, tmax, prog[1], K, 1, case)
        if kind is None:
            return
        if kind != "failure" and ode.shape[0] != steps:
            ctx.violation(
                "multi-run-rows",
                f"starting state #{i} ({'test' if i < len(tests) else 'training'}"
                f"): {ode.shape[0]} rows, requested {steps}", case)
            return
        if j != j_from_ode(ode, 2, use, gamma) or t != t_from_ode(ode):
            ctx.violation("multi-run-j-or-t",
                          f"collector got j={j}, t={t}; from the same rows: "
                          f"{j_from_ode(ode, 2, use, gamma)}, "
                          f"{t_from_ode(ode)}", case)
            return
        judge_j(ctx, ode, 2, use, gamma, case)


def direct_j(ctx, rng):
    """j_from_ode / diff_from_ode on hand-made result tables."""
    n = int(rng.integers(1, 5))
    c = int(rng.integers(1, 4))
    rows = int(rng.integers(2, 12))
    t = np.cumsum(rng.uniform(0.01, 2.0, rows))
    t[0] = 0.0
    t = np.sort(t)
    for i in range(1, rows):
        if t[i] <= t[i - 1]:
            t[i] = t[i - 1] + 0.01
    ode = np.empty((rows, n + c + 1))
    ode[:, :n + c] = rng.uniform(-5, 5, (rows, n + c))
    ode[:, -1] = t
    use = int(rng.integers(-1, n + 1))
    gamma = float(rng.choice([0.0, 0.1, 1.0, 3.0]))
    case = {"kind": "directj", "ode": ode.tolist(), "n": n, "use": use,
            "gamma": gamma}
    ctx.case()
    ctx.count("direct_j_tables")
    ctx.count(f"direct_j_control_dims[{c}]")
    judge_j(ctx, ode, n, use, gamma, case)
    if c >= 2:
        ctx.nontrivial(case)


def hostile(ctx, rng):
    kind = str(rng.choice(["now", "after", "nan", "inf", "-inf", "9.9e9",
                           "grow", "nan-at-0", "square", "start1e9",
                           "after-long", "shrinking", "timedep", "timedep",
                           "glitch", "glitch"]))
    steps = int(rng.choice([10, 11, 50, 500]))
    tmax = float(rng.choice([0.5, 5.0, 50.0]))
    t0 = float(rng.uniform(0.05, 0.9) * tmax)
    case = {"kind": "hostile", "what": kind, "steps": steps, "tmax": tmax,
            "t0": t0}
    if kind == "glitch":
        # the controller misbehaves only in a narrow window around one
        # output time of a dense grid: the integrator's own (few, long)
        # steps never see it, the output rows do
        steps = int(rng.choice([501, 1001, 2001]))
        tmax = 50.0
        row = int(rng.integers(steps // 5, steps - 2))
        tg = row * tmax / (steps - 1)
        bad = float(rng.choice([1e50, -1e50, math.inf, math.nan, 1e10]))

        def glitch(state, t, params, out, tg=tg, bad=bad):
            out[0] = bad if abs(t - tg) < 1e-3 else 0.05 * state[0]
        A = [[-0.05, -0.3], [0.3, -0.05]]
        start = [float(rng.uniform(-1, 1)), float(rng.uniform(-1, 1))]
        case = dict(case, steps=steps, tmax=tmax, row=row, bad=repr(bad),
                    start=start)
        run_case(ctx, (lin_system(A, [0, 1]), glitch, 1), start, steps, tmax,
                 None, case)
        ctx.count("hostile[glitch]")
        return
    if kind == "shrinking":
        A = [[-0.1, -1.0], [1.0, -0.1]]
        start = [0.3, -0.2]
        run_case(ctx, (lin_system(A, [0, 1]), Shrinking(tmax), 1), start,
                 steps, tmax, None, dict(case, start=start),
                 recheck_control=False)
    elif kind == "timedep":
        A = [[-0.2, -1.0], [1.0, -0.2]]
        start = [float(rng.uniform(-1, 1)), float(rng.uniform(-1, 1))]
        params = np.array([float(rng.uniform(-0.3, 0.3)),
                           float(rng.uniform(-0.3, 0.3)),
                           float(rng.uniform(0.1, 2.0)),
                           float(rng.uniform(0.5, 20.0))])
        run_case(ctx, (lin_system(A, [0, 1]), ctrl_time_dependent, 1), start,
                 steps, tmax, params,
                 dict(case, start=start, params=[float(v) for v in params]))
    elif kind == "square":
        start = [float(rng.uniform(0.5, 5.0)), 1.0]
        run_case(ctx, (eq_square, ctrl_zero, 1), start, steps, tmax, None,
                 dict(case, start=start))
    elif kind == "start1e9":
        A = [[-0.1, -1.0], [1.0, -0.1]]
        start = [1e9, float(rng.choice([0.0, 1e9, -1e9]))]
        run_case(ctx, (lin_system(A, [0, 1]), ctrl_zero, 1), start, steps,
                 tmax, None, dict(case, start=start))
    else:
        if kind == "after-long":
            kind, t0 = "after", 0.97 * tmax
        A = [[-0.1, -1.0], [1.0, -0.1]]
        start = [float(rng.uniform(-1, 1)), float(rng.uniform(-1, 1))]
        run_case(ctx, (lin_system(A, [0, 1]), make_bad_ctrl(kind, t0), 1),
                 start, steps, tmax, None, dict(case, start=start))
    ctx.count(f"hostile[{case['what']}]")


def run_shard(ctx, args):
    rng = ctx.rng
    for it in range(args["n"]):
        k = it % 5
        for _ in range(3):
            direct_j(ctx, rng)
        if it % 7 == 0:
            multi_control(ctx, rng)
        if it % 5 == 1:
            multi_entry(ctx, rng)
        if it % 5 == 2:
            mixed_scale(ctx, rng)
        if k in (0, 1):
            bundled(ctx, rng, it)
        elif k == 2:
            linear_analytic(ctx, rng)
        else:
            hostile(ctx, rng)
        if it % 60 == 0:
            ctx.sample({"example": "see counters", "iteration": it,
                        "max_cycles_so_far": ctx.maxima.get(
                            "max_integration_cycles")})


def replay(ctx, case):
    rng = ctx.rng
    k = case["kind"]
    if k == "mixed_scale":
        for _ in range(150):
            mixed_scale(ctx, rng)
        return
    if k == "multi_entry":
        # the case is a function of the shard's random stream: re-run some
        for _ in range(200):
            multi_entry(ctx, rng)
        return
    if k == "linear":
        A, K, s0 = case["A"], np.array(case["K"]), case["start"]
        M = np.array(A) + np.outer([0.0, 1.0], K)
        run_case(ctx, (lin_system(A, [0.0, 1.0]), ctrl_linear, 1), s0,
                 case["steps"], case["tmax"], K, case,
                 analytic=expm_solution(M, s0))
    elif k == "bundled":
        from checks import C16
        sysm = C16.systems()[case["dims"]]
        cs = C16.controllers_for(case["dims"])
        from moptipyapps.dynamic_control.controllers.ann import anns
        allc = list(anns(sysm))
        for v in cs.values():
            allc.extend(v if isinstance(v, list) else [v])
        ctrl = [c for c in allc if c.name == case["ctrl"]
                and c.param_dims == len(case["params"])][0]
        run_case(ctx, (sysm.equations, ctrl.controller, sysm.control_dims),
                 case["start"], case["steps"], case["tmax"],
                 np.array(case["params"]), case, use=sysm.state_dims_in_j,
                 gamma=sysm.gamma)
    elif k == "directj":
        ctx.case()
        judge_j(ctx, np.array(case["ode"]), case["n"], case["use"],
                case["gamma"], case)
    elif k == "multi":
        A, B = np.array(case["A"]), np.array(case["B"])
        K, off = np.array(case["K"]), np.array(case["off"])

        def eq(state, t, control, out):
            out[:] = A @ state + B @ control

        def ctrl(state, t, params, out):
            out[:] = K @ state + off * math.sin(0.7 * t)
        run_case(ctx, (eq, ctrl, B.shape[1]), case["start"], case["steps"],
                 case["tmax"], None, case, use=case["use"],
                 gamma=case["gamma"])
    else:
        what = case["what"]
        A = [[-0.1, -1.0], [1.0, -0.1]]
        if what == "shrinking":
            run_case(ctx, (lin_system(A, [0, 1]), Shrinking(case["tmax"]), 1),
                     case["start"], case["steps"], case["tmax"], None, case,
                     recheck_control=False)
        elif what == "timedep":
            run_case(ctx, (lin_system([[-0.2, -1.0], [1.0, -0.2]], [0, 1]),
                           ctrl_time_dependent, 1), case["start"],
                     case["steps"], case["tmax"], np.array(case["params"]),
                     case)
        elif what == "square":
            run_case(ctx, (eq_square, ctrl_zero, 1), case["start"],
                     case["steps"], case["tmax"], None, case)
        elif what == "start1e9":
            run_case(ctx, (lin_system(A, [0, 1]), ctrl_zero, 1),
                     case["start"], case["steps"], case["tmax"], None, case)
        elif what == "glitch":
            tg = case["row"] * case["tmax"] / (case["steps"] - 1)
            bad = float(case["bad"])

            def glitch(state, t, params, out):
                out[0] = bad if abs(t - tg) < 1e-3 else 0.05 * state[0]
            run_case(ctx, (lin_system([[-0.05, -0.3], [0.3, -0.05]], [0, 1]),
                           glitch, 1), case["start"], case["steps"],
                     case["tmax"], None, case)
        else:
            kind = "after" if what == "after-long" else what
            run_case(ctx, (lin_system(A, [0, 1]),
                           make_bad_ctrl(kind, case["t0"]), 1),
                     case["start"], case["steps"], case["tmax"], None, case)
    _ = rng
