"""C01 - every decoded bin packing is physically feasible."""
from __future__ import annotations

import numpy as np

from vlib.monitors.packing_contracts import PackingMonitor, dtype_ok
from vlib.workloads import binpack as wb

PID = "C01"
RULE = ("instances of classes tiny(1x1..3x3 bins), item==bin, forced "
        "rotation, dtype boundary (max_dim+max_side+1 at 127/32767/2^31-1 "
        "+-2, long-thin), ~127 unit items, random general, shipped; signed "
        "permutations random/sorted/reversed/plain/negated/big-first/"
        "small-first and ALL signed permutations for <= 4 items; both "
        "encodings; every decode judged by an icontract postcondition "
        "calling the independent feasibility oracle. non-trivial = distinct "
        "(instance, permutation, encoding) with >= 2 items and at least one "
        "of: second bin opened, forced rotation, dtype-boundary class")
LEVEL_ASSUMPTIONS = [
    "feasibility oracle vlib/oracles/packing.py (self-tested on the "
    "Liu-Teng example)", "icontract postcondition on "
    "ImprovedBottomLeftEncoding{1,2}.decode evaluated on every call"]
REQUIRED = {"instances_edited_and_rebuilt_under_one_name": 100,
            "concurrent_decodes": 20000, "suite_runs": 1, "contract_decode_calls": 1000, "contract_decode_evaluated": 500, "forced_rotations": 20,
            "second_bin": 100, "dtype[int8]": 1, "dtype[int16]": 1,
            "dtype[int32]": 1, "dtype[int64]": 1}

MON: PackingMonitor | None = None


# the repository's own tests as a further workload, observed by the
# process-wide contracts of vlib/monitors (see vlib/suite.py)
SUITE_TESTS = ['tests/binpacking2d/encodings']
SUITE_DOMAINS = ['packing']


def plan(tier: str, seed: int):
    rounds = 1 if tier == "quick" else 6
    return _plan(tier, seed) + [
        # the same workload once in an interpreter started with -O
        {"name": "opt", "engine": "opt", "timeout": 3000,
         "args": {"n": 150 if tier == "quick" else 1500}},
        {"name": "threads", "engine": "jit", "timeout": 3000,
         "args": {"mode": "threads", "n": 6 if tier == "quick" else 60,
                  "threads": 6, "loops": 150}}] + [
        {"name": f"suite{i}", "engine": "jit", "timeout": 3000,
         "args": {"mode": "suite", "tests": SUITE_TESTS,
                  "domains": SUITE_DOMAINS, "rounds": rounds}}
        for i in range(1 if tier == "quick" else 4)]


def _plan(tier: str, seed: int):
    if tier == "quick":
        return [{"name": f"s{i}", "engine": "jit", "args": {"n": 400},
                 "timeout": 900} for i in range(4)]
    return [{"name": f"s{i}", "engine": "jit", "args": {"n": 8000},
             "timeout": 3000} for i in range(16)]


def _monitor(ctx) -> PackingMonitor:
    global MON
    if MON is None:
        MON = PackingMonitor(ctx)
        MON.install(objectives=False)
    return MON


def _encoders(inst):
    from moptipyapps.binpacking2d.encodings.ibl_encoding_1 import (
        ImprovedBottomLeftEncoding1,
    )
    from moptipyapps.binpacking2d.encodings.ibl_encoding_2 import (
        ImprovedBottomLeftEncoding2,
    )
    return {1: ImprovedBottomLeftEncoding1(inst),
            2: ImprovedBottomLeftEncoding2(inst)}


def forced(desc, perm) -> int:
    n = 0
    for c in perm:
        w, h = desc["items"][abs(c) - 1][:2]
        if c < 0:
            w, h = h, w
        if w > desc["W"] or h > desc["H"]:
            n += 1
    return n


def decode_case(ctx, mon, desc, inst, encs, perm, enc_id, y):
    from moptipyapps.binpacking2d.packing import Packing
    mon.current = {"kind": "decode", "desc": desc, "perm": perm,
                   "enc": enc_id}
    ctx.case()
    if y is None:
        y = Packing(inst)
    encs[enc_id].decode(wb.x_buffer(perm, inst), y)
    mon.current = None
    f = forced(desc, perm)
    if f:
        ctx.count("forced_rotations", f)
    k = int(y.n_bins)
    if k >= 2:
        ctx.count("second_bin")
    ctx.seen_max("max_bins", k)
    ctx.seen_max("max_items", len(perm))
    if len(perm) >= 2 and (k >= 2 or f or desc["cls"] in ("dtype", "unit")):
        ctx.nontrivial(desc["W"], desc["H"], desc["items"], perm, enc_id)
    return y


def threads_shard(ctx, args):
    """Several threads, each with its OWN encoder objects and destination,
    decode permutations of one SHARED instance at the same time (the kernels
    are compiled with nogil=True, instances are immutable data, e.g. the one
    cached object `Instance.from_resource` returns). Every result must equal
    what the same permutation gives in a single thread (those references are
    judged by the feasibility oracle first)."""
    import sys
    import threading

    from moptipyapps.binpacking2d.instance import Instance
    from moptipyapps.binpacking2d.packing import Packing
    rng = ctx.rng
    mon = _monitor(ctx)
    old_int = sys.getswitchinterval()
    sys.setswitchinterval(1e-5)
    try:
        for rnd in range(args["n"]):
            if rnd % 3 == 0:
                nm = str(rng.choice(["a01", "a04", "beng01", "cl01_020_01",
                                     "cl02_040_03"]))
                inst = Instance.from_resource(nm)
                desc = wb.desc_of(inst, "shipped")
            else:
                desc = wb.gen_instance(rng, str(rng.choice(
                    ["general", "twins", "forcedrot", "unit"])))
                try:
                    inst = wb.make_real(desc)
                except ValueError:
                    continue
            perms = [wb.gen_perm(rng, desc, "random") for _ in range(12)]
            refs = {}
            for e in (1, 2):
                enc = _encoders(inst)[e]
                for k, p in enumerate(perms):
                    y = Packing(inst)
                    mon.current = {"kind": "decode", "desc": desc,
                                   "perm": p, "enc": e}
                    enc.decode(wb.x_array(p, inst), y)   # contract judges it
                    mon.current = None
                    refs[(e, k)] = (np.array(y), int(y.n_bins))
            xs = [wb.x_array(p, inst) for p in perms]
            bad: list = []
            nthr = int(args.get("threads", 6))
            loops = int(args.get("loops", 150))

            def work(tid):
                encs = _encoders(inst)
                raw = {e: getattr(type(encs[e]), "_verif_orig_decode",
                                  type(encs[e]).decode) for e in encs}
                y = Packing(inst)
                order = np.random.default_rng(tid).permutation(len(perms))
                for it in range(loops):
                    for k in order:
                        e = 1 + (it + tid + int(k)) % 2
                        raw[e](encs[e], xs[int(k)], y)
                        ra, rk = refs[(e, int(k))]
                        if y.n_bins != rk or not np.array_equal(y, ra):
                            bad.append((tid, e, int(k)))
                            return
            ths = [threading.Thread(target=work, args=(t,))
                   for t in range(nthr)]
            for t in ths:
                t.start()
            for t in ths:
                t.join()
            ctx.case(nthr * loops * len(perms))
            ctx.count("concurrent_decodes", nthr * loops * len(perms))
            ctx.count("concurrent_rounds")
            if bad:
                tid, e, k = bad[0]
                ctx.violation(
                    "decode-differs-under-concurrent-decoding",
                    f"thread {tid}: encoding {e} on {perms[k][:12]}.. gives "
                    f"another packing while {nthr - 1} other threads decode "
                    f"the same instance with their own encoders",
                    ctx.shard_replay_case(what="threads", desc=desc))
                return
    finally:
        sys.setswitchinterval(old_int)


LAST_ID: list = [None]


def one_instance(ctx, desc, exhaustive_ok=True, inst=None, light=False):
    mon = _monitor(ctx)
    rng = ctx.rng
    if inst is None:
        inst = wb.make_real(desc)
    if LAST_ID[0] == (id(inst), desc["name"]):
        ctx.count("rebuilt_instance_got_the_address_of_the_collected_one")
    LAST_ID[0] = (id(inst), desc["name"])
    ctx.count(f"inst_cls[{desc['cls']}]")
    ctx.count(f"dtype[{inst.dtype}]")
    why = dtype_ok(inst, desc)
    if why is not None:
        # not a verdict: how wide the type must be depends on what the
        # decoders store; the decisive monitor is the feasibility oracle on
        # every decode below
        ctx.count("dtype_narrower_than_bin_plus_item")
        ctx.note("storage type narrower than max_dim + max item side: " + why)
    encs = _encoders(inst)
    y = None
    n = wb.n_items(desc)
    if exhaustive_ok and n <= 4:
        cnt = 0
        for perm in wb.all_signed_perms(desc):
            for e in (1, 2):
                y = decode_case(ctx, mon, desc, inst, encs, perm, e, y)
            cnt += 1
        ctx.count("instances_with_all_signed_perms")
        ctx.count("exhaustive_perms", cnt)
        ctx.mark_exhaustive("all signed permutations of every generated "
                            "instance with <= 4 items")
    else:
        kinds = ["random", "sorted", "random"] if light else (
            list(wb.PERM_KINDS) + ["random"] * 5)
        for kind in kinds:
            perm = wb.gen_perm(rng, desc, kind)
            for e in (1, 2):
                y = decode_case(ctx, mon, desc, inst, encs, perm, e, y)
    ctx.sample({"instance": {k: desc[k] for k in ("W", "H", "items", "cls")},
                "dtype": str(inst.dtype), "last_rows": wb.rows_of(y)[:3],
                "n_bins": int(y.n_bins)})


def run_shard(ctx, args):
    if args.get("mode") == "threads":
        return threads_shard(ctx, args)
    return _run_shard(ctx, args)


def _run_shard(ctx, args):
    rng = ctx.rng
    classes = ["tiny", "itembin", "forcedrot", "dtype", "general", "unit",
               "dtype", "forcedrot", "general", "shipped", "count"]
    names = None
    for it in range(args["n"]):
        cls = classes[it % len(classes)]
        if cls == "shipped":
            if names is None:
                names = list(wb.shipped_names())
            desc = wb.shipped_desc(str(rng.choice(names)))
        else:
            desc = wb.gen_instance(rng, cls)
        try:
            one_instance(ctx, desc)
            if it % 3 == 0 and cls != "shipped":
                # edit-and-rebuild: the first instance is gone (collected),
                # the user builds "her" instance again under the same name
                # with some item sizes edited - same number of item types,
                # usually the same storage type, often the same address
                import gc

                from moptipyapps.binpacking2d.instance import Instance
                d2 = dict(desc)
                d2["items"] = [list(r) for r in desc["items"]]
                for _rep in range(5):       # several edit / rebuild cycles
                    gc.collect()
                    r = d2["items"][int(rng.integers(len(d2["items"])))]
                    if rng.integers(2) and r[0] > 1:
                        r[0] -= 1
                    elif r[1] > 1:
                        r[1] -= 1
                    ctx.count("instances_edited_and_rebuilt_under_one_name")
                    one_instance(ctx, d2, exhaustive_ok=False, inst=Instance(
                        d2["name"], d2["W"], d2["H"],
                        [list(q) for q in d2["items"]]), light=True)
        except ValueError as e:
            if wb.outside_domain(desc):
                ctx.count("generator_rejected_by_ctor")
                continue
            raise


def replay(ctx, case):
    mon = _monitor(ctx)
    desc = case["desc"]
    inst = wb.make_real(desc)
    if case["kind"] == "dtype":
        why = dtype_ok(inst, desc)
        ctx.case()
        if why:
            ctx.violation("instance-dtype-too-narrow", why, case)
        return
    e = case["enc"]
    e = {"ibf1": 1, "ibf2": 2}.get(e, e)
    # garbage destination as in the original run
    from moptipyapps.binpacking2d.packing import Packing
    y = Packing(inst)
    y.fill(np.iinfo(inst.dtype).max)
    decode_case(ctx, mon, desc, inst, _encoders(inst), case["perm"], e, y)
