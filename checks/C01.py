"""C01 - every decoded bin packing is physically feasible."""
from __future__ import annotations

import numpy as np

from vlib.monitors.packing_contracts import PackingMonitor, dtype_ok
from vlib.workloads import binpack as wb

PID = "C01"
RULE = ("instances of classes tiny(1x1..3x3 bins), item==bin, forced "
        "rotation, dtype boundary (max_dim+max_side+1 at 127/32767/2^31-1 "
        "+-2, long-thin), ~127 unit items, random general, shipped; signed "
        "permutations random/sorted/reversed/plain/negated/big-first/"
        "small-first and ALL signed permutations for <= 4 items; both "
        "encodings; every decode judged by an icontract postcondition "
        "calling the independent feasibility oracle. non-trivial = distinct "
        "(instance, permutation, encoding) with >= 2 items and at least one "
        "of: second bin opened, forced rotation, dtype-boundary class")
LEVEL_ASSUMPTIONS = [
    "feasibility oracle vlib/oracles/packing.py (self-tested on the "
    "Liu-Teng example)", "icontract postcondition on "
    "ImprovedBottomLeftEncoding{1,2}.decode evaluated on every call"]
REQUIRED = {"suite_runs": 1, "contract_decode_calls": 1000, "contract_decode_evaluated": 500, "forced_rotations": 20,
            "second_bin": 100, "dtype[int8]": 1, "dtype[int16]": 1,
            "dtype[int32]": 1, "dtype[int64]": 1}

MON: PackingMonitor | None = None


# the repository's own tests as a further workload, observed by the
# process-wide contracts of vlib/monitors (see vlib/suite.py)
SUITE_TESTS = ['tests/binpacking2d/encodings']
SUITE_DOMAINS = ['packing']


def plan(tier: str, seed: int):
    rounds = 1 if tier == "quick" else 6
    return _plan(tier, seed) + [
        {"name": f"suite{i}", "engine": "jit", "timeout": 3000,
         "args": {"mode": "suite", "tests": SUITE_TESTS,
                  "domains": SUITE_DOMAINS, "rounds": rounds}}
        for i in range(1 if tier == "quick" else 4)]


def _plan(tier: str, seed: int):
    if tier == "quick":
        return [{"name": f"s{i}", "engine": "jit", "args": {"n": 400},
                 "timeout": 900} for i in range(4)]
    return [{"name": f"s{i}", "engine": "jit", "args": {"n": 8000},
             "timeout": 3000} for i in range(16)]


def _monitor(ctx) -> PackingMonitor:
    global MON
    if MON is None:
        MON = PackingMonitor(ctx)
        MON.install(objectives=False)
    return MON


def _encoders(inst):
    from moptipyapps.binpacking2d.encodings.ibl_encoding_1 import (
        ImprovedBottomLeftEncoding1,
    )
    from moptipyapps.binpacking2d.encodings.ibl_encoding_2 import (
        ImprovedBottomLeftEncoding2,
    )
    return {1: ImprovedBottomLeftEncoding1(inst),
            2: ImprovedBottomLeftEncoding2(inst)}


def forced(desc, perm) -> int:
    n = 0
    for c in perm:
        w, h = desc["items"][abs(c) - 1][:2]
        if c < 0:
            w, h = h, w
        if w > desc["W"] or h > desc["H"]:
            n += 1
    return n


def decode_case(ctx, mon, desc, inst, encs, perm, enc_id, y):
    from moptipyapps.binpacking2d.packing import Packing
    mon.current = {"kind": "decode", "desc": desc, "perm": perm,
                   "enc": enc_id}
    ctx.case()
    if y is None:
        y = Packing(inst)
    encs[enc_id].decode(wb.x_buffer(perm, inst), y)
    mon.current = None
    f = forced(desc, perm)
    if f:
        ctx.count("forced_rotations", f)
    k = int(y.n_bins)
    if k >= 2:
        ctx.count("second_bin")
    ctx.seen_max("max_bins", k)
    ctx.seen_max("max_items", len(perm))
    if len(perm) >= 2 and (k >= 2 or f or desc["cls"] in ("dtype", "unit")):
        ctx.nontrivial(desc["W"], desc["H"], desc["items"], perm, enc_id)
    return y


def one_instance(ctx, desc, exhaustive_ok=True):
    mon = _monitor(ctx)
    rng = ctx.rng
    inst = wb.make_real(desc)
    ctx.count(f"inst_cls[{desc['cls']}]")
    ctx.count(f"dtype[{inst.dtype}]")
    why = dtype_ok(inst, desc)
    if why is not None:
        # not a verdict: how wide the type must be depends on what the
        # decoders store; the decisive monitor is the feasibility oracle on
        # every decode below
        ctx.count("dtype_narrower_than_bin_plus_item")
        ctx.note("storage type narrower than max_dim + max item side: " + why)
    encs = _encoders(inst)
    y = None
    n = wb.n_items(desc)
    if exhaustive_ok and n <= 4:
        cnt = 0
        for perm in wb.all_signed_perms(desc):
            for e in (1, 2):
                y = decode_case(ctx, mon, desc, inst, encs, perm, e, y)
            cnt += 1
        ctx.count("instances_with_all_signed_perms")
        ctx.count("exhaustive_perms", cnt)
        ctx.mark_exhaustive("all signed permutations of every generated "
                            "instance with <= 4 items")
    else:
        kinds = list(wb.PERM_KINDS) + ["random"] * 5
        for kind in kinds:
            perm = wb.gen_perm(rng, desc, kind)
            for e in (1, 2):
                y = decode_case(ctx, mon, desc, inst, encs, perm, e, y)
    ctx.sample({"instance": {k: desc[k] for k in ("W", "H", "items", "cls")},
                "dtype": str(inst.dtype), "last_rows": wb.rows_of(y)[:3],
                "n_bins": int(y.n_bins)})


def run_shard(ctx, args):
    rng = ctx.rng
    classes = ["tiny", "itembin", "forcedrot", "dtype", "general", "unit",
               "dtype", "forcedrot", "general", "shipped"]
    names = None
    for it in range(args["n"]):
        cls = classes[it % len(classes)]
        if cls == "shipped":
            if names is None:
                names = list(wb.shipped_names())
            desc = wb.shipped_desc(str(rng.choice(names)))
        else:
            desc = wb.gen_instance(rng, cls)
        try:
            one_instance(ctx, desc)
        except ValueError as e:
            if "does not fit" in str(e) or "must be in" in str(e):
                ctx.count("generator_rejected_by_ctor")
                continue
            raise


def replay(ctx, case):
    mon = _monitor(ctx)
    desc = case["desc"]
    inst = wb.make_real(desc)
    if case["kind"] == "dtype":
        why = dtype_ok(inst, desc)
        ctx.case()
        if why:
            ctx.violation("instance-dtype-too-narrow", why, case)
        return
    e = case["enc"]
    e = {"ibf1": 1, "ibf2": 2}.get(e, e)
    # garbage destination as in the original run
    from moptipyapps.binpacking2d.packing import Packing
    y = Packing(inst)
    y.fill(np.iinfo(inst.dtype).max)
    decode_case(ctx, mon, desc, inst, _encoders(inst), case["perm"], e, y)
