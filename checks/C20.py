"""C20 - ordering instances encode neighbour ranks faithfully."""
from __future__ import annotations

import itertools
import math

import numpy as np

PID = "C20"
RULE = ("object sequences with duplicates and ties (ints with |a-b|, 2-D "
        "points with Manhattan / Euclidean / '+1' distances, floats), flow "
        "powers {0.5, 1, 1.5, 2, 3}, horizons {1, 2, 3, n, 100}; every object "
        "carries its original position as tag, so the recorded mapping is "
        "unambiguous. Oracle: representatives = first object of each "
        "zero-distance class; every original object appears once in tags "
        "with its representative's index; distances[i][j] = |i-j|; flows 0 "
        "on the diagonal and for average-rank > horizon, equal for equal "
        "distances, not smaller for nearer neighbours. Swap distance: "
        "EXHAUSTIVE over all pairs of permutations up to length 6 (7 in "
        "thorough) against a BFS-over-transpositions table, called from a "
        "harness-side compiled loop and through the public function. "
        "non-trivial = distinct sequences with >= 1 duplicate and >= 1 tie "
        "inside the horizon")
LEVEL_ASSUMPTIONS = ["oracle: own average-rank computation and BFS table of "
                     "minimal transposition counts"]


def REQUIRED(tier):  # noqa: N802
    return {"instances_judged": 1000, "with_duplicates": 300,
            "big_instances_judged": 20, "swap_long_permutations": 40,
            "sequences_with_identical_object_repeated": 100,
            "sequences_with_a_None_element": 100,
            "dist[absabs+1]": 50, "dist[mixedtypes]": 50,
            "tag_function_style[3]": 30, "tag_function_style[4]": 30,
            "ties_inside_horizon": 300, "beyond_horizon_entries": 1000,
            "swap_pairs": 518400 + 14400 + 576 + 36 + 4 + 1
            if tier == "quick" else 25_000_000}


def plan(tier: str, seed: int):
    if tier == "quick":
        return [{"name": "swap", "engine": "jit",
                 "args": {"mode": "swap", "maxlen": 6}, "timeout": 900}] + [
            {"name": f"s{i}", "engine": "jit",
             "args": {"mode": "inst", "n": 500}, "timeout": 900}
            for i in range(3)]
    return [{"name": "swap", "engine": "jit",
             "args": {"mode": "swap", "maxlen": 7}, "timeout": 3000}] + [
        {"name": f"s{i}", "engine": "jit",
         "args": {"mode": "inst", "n": 40000}, "timeout": 3400}
        for i in range(15)]


# -- swap distance ----------------------------------------------------------
def bfs_table(n):
    """Minimal number of transpositions from the identity, for all of S_n."""
    ident = tuple(range(n))
    dist = {ident: 0}
    frontier = [ident]
    swaps = [(a, b) for a in range(n) for b in range(a + 1, n)]
    while frontier:
        nxt = []
        for p in frontier:
            d = dist[p]
            for a, b in swaps:
                q = list(p)
                q[a], q[b] = q[b], q[a]
                q = tuple(q)
                if q not in dist:
                    dist[q] = d + 1
                    nxt.append(q)
        frontier = nxt
    return dist


def swap_exhaustive(ctx, n):
    import numba

    from moptipyapps.order1d.distances import swap_distance

    @numba.njit(cache=False)
    def all_pairs(P, out):
        m = P.shape[0]
        for a in range(m):
            for b in range(m):
                out[a, b] = swap_distance(P[a], P[b])

    perms = list(itertools.permutations(range(n)))
    P = np.array(perms, dtype=np.int64)
    m = len(perms)
    out = np.empty((m, m), np.int64)
    all_pairs(P, out)
    ctx.case(m * m)
    ctx.count("swap_pairs", m * m)
    table = bfs_table(n)
    code_of = np.zeros(max(1, n ** n), np.int8)
    w = np.array([n ** i for i in range(n)], dtype=np.int64)
    for p, d in table.items():
        code_of[int(np.dot(np.array(p, np.int64), w))] = d
    bad = 0
    for a in range(m):
        inv = np.argsort(P[a])
        Q = P[:, inv]                 # q = p2 o p1^-1 for all p2
        want = code_of[Q @ w]
        diff = np.flatnonzero(want != out[a])
        if len(diff):
            bad += len(diff)
            b = int(diff[0])
            if bad == len(diff):
                ctx.violation(
                    "swap-distance-differs",
                    f"swap_distance({list(perms[a])}, {list(perms[b])}) = "
                    f"{int(out[a, b])}, minimal transpositions = "
                    f"{int(want[b])} (n={n})",
                    {"kind": "swap", "p1": list(perms[a]),
                     "p2": list(perms[b])})
    if (out != out.T).any():
        ctx.violation("swap-distance-asymmetric", f"n={n}",
                      {"kind": "swapn", "n": n})
    ctx.mark_exhaustive(f"all {m}^2 pairs of permutations of length {n}")
    ctx.seen_max("max_swap_distance", int(out.max()))
    for d in range(n):
        ctx.nontrivial("swap", n, d, int((out == d).sum()))


def swap_public(ctx, p1, p2):
    from moptipyapps.order1d.distances import swap_distance
    n = len(p1)
    ctx.case()
    ctx.count("swap_public_calls")
    a = np.array(p1, np.int64)
    b = np.array(p2, np.int64)
    a0, b0 = a.copy(), b.copy()
    v = swap_distance(a, b)
    # oracle: n - cycles by explicit composition
    inv = [0] * n
    for i, x in enumerate(p1):
        inv[x] = i
    q = [p2[inv[i]] for i in range(n)]
    seen = [False] * n
    cyc = 0
    for i in range(n):
        if not seen[i]:
            cyc += 1
            j = i
            while not seen[j]:
                seen[j] = True
                j = q[j]
    if v != n - cyc:
        ctx.violation("swap-distance-differs",
                      f"swap_distance = {v}, n - cycles = {n - cyc} (n={n})",
                      {"kind": "swap", "p1": p1, "p2": p2})
    if (a != a0).any() or (b != b0).any():
        ctx.violation("swap-distance-modifies-input", "inputs changed",
                      {"kind": "swap", "p1": p1, "p2": p2})


# -- instances ------------------------------------------------------------
def avg_ranks(row):
    """Average ranks (0-based) of the entries of one row."""
    out = []
    for v in row:
        less = sum(1 for w in row if w < v)
        eq = sum(1 for w in row if w == v)
        out.append(less + (eq - 1) / 2.0)
    return out


DISTS = {
    "absint": lambda a, b: abs(a - b),
    "absint+1": lambda a, b: 0 if a == b else abs(a - b) + 1,
    "manhattan": lambda a, b: abs(a[0] - b[0]) + abs(a[1] - b[1]),
    "euclid": lambda a, b: math.hypot(a[0] - b[0], a[1] - b[1]),
    "cheb": lambda a, b: max(abs(a[0] - b[0]), abs(a[1] - b[1])),
    "absfloat": lambda a, b: abs(a - b),
    # never zero, not even for an object and itself (the package's own
    # doctests use such a function): nothing may be merged
    "absabs+1": lambda a, b: abs(abs(a) - abs(b)) + 1,
    # a look-up-table like function whose results are Python ints for some
    # pairs (all pairs of the first object) and fractional floats for others
    "mixedtypes": lambda a, b: abs(a - b) if (a % 5 == 0 or b % 5 == 0)
    else (abs(a - b) / 2 + (0.25 if a != b else 0)),
}


SIZE_WINDOWS = (63, 64, 65, 66, 127, 128, 129, 130, 255, 256, 257, 258)


def gen_big_sequence(rng, k=None):
    """Object counts around 2^6, 2^7, 2^8 (index / distance types change
    there), or the given count; almost all objects distinct."""
    if k is None:
        k = int(rng.choice(SIZE_WINDOWS))
    vals = [int(v) * 3 for v in rng.permutation(k)]
    for _ in range(int(rng.integers(0, 3))):      # a few zero-distance twins
        vals.append(vals[int(rng.integers(len(vals)))])
    return {"dist": "absint", "vals": vals,
            "power": float(rng.choice([1, 2])),
            "horizon": int(rng.choice([1, 3, 100, 1000])), "big": True}


def gen_sequence(rng):
    dk = str(rng.choice(list(DISTS)))
    k = int(rng.integers(1, 12))
    span = int(rng.choice([2, 4, 8, 30]))
    if dk in ("absint", "absint+1"):
        vals = [int(rng.integers(0, span)) for _ in range(k)]
    elif dk == "absabs+1":
        vals = [int(rng.integers(-span, span + 1)) for _ in range(k)]
    elif dk == "mixedtypes":
        vals = [5 * int(rng.integers(0, 4))] + [
            int(rng.integers(0, span + 8)) for _ in range(k - 1)]
    elif dk == "absfloat":
        vals = [float(rng.integers(0, span)) / 4.0 for _ in range(k)]
    else:
        vals = [[int(rng.integers(0, max(2, span // 2))),
                 int(rng.integers(0, max(2, span // 2)))] for _ in range(k)]
    power = float(rng.choice([0.5, 1, 1.5, 2, 3]))
    if power == int(power) and rng.integers(2):
        power = int(power)
    horizon = int(rng.choice([1, 2, 3, k, 100]))
    # the very same object (identity, not just value) more than once
    same = []
    if k >= 2 and rng.integers(3) == 0:
        for _ in range(int(rng.integers(1, 3))):
            i, j = sorted(int(v) for v in rng.choice(k, 2, replace=False))
            same.append([i, j])
    return {"dist": dk, "vals": vals, "power": power, "horizon": horizon,
            "same": same, "tagstyle": int(rng.integers(5)),
            "none_at": int(rng.integers(k)) if rng.integers(4) == 0 else None}


def judge_instance(ctx, case):
    from moptipyapps.order1d.instance import Instance
    dk, vals = case["dist"], case["vals"]
    power, horizon = case["power"], case["horizon"]
    df = DISTS[dk]
    objs = [(pos, tuple(v) if isinstance(v, list) else v)
            for pos, v in enumerate(vals)]
    for i, j in case.get("same", []):
        objs[j] = objs[i]            # identical object at two positions
    if case.get("same"):
        ctx.count("sequences_with_identical_object_repeated")
    # the signature allows None as an element: an object like any other for
    # functions that accept it (here: it stands for the value / position
    # given in the case)
    none_at = case.get("none_at")
    none_obj = None
    if none_at is not None and none_at < len(objs):
        none_obj = objs[none_at]
        objs = [None if k == none_at else o for k, o in enumerate(objs)]
        ctx.count("sequences_with_a_None_element")

        def unwrap(o, _n=none_obj):
            return _n if o is None else o
    else:
        def unwrap(o):
            return o
    ctx.case()
    # what the tag function hands back: a str, a tuple, a fresh list or a
    # generator - all are `str | Iterable[str]`. (NOT one list object that
    # the function refills on every call: when the constructor reads what it
    # was handed is its own business - see DESIGN.md section 9.)
    tagstyle = int(case.get("tagstyle", 0))

    def get_tags(o):
        t = str(unwrap(o)[0])
        if tagstyle == 1:
            return (t,)
        if tagstyle == 2:
            return [t]
        if tagstyle == 3:
            return iter([t])
        if tagstyle == 4:
            return (v for v in [t])
        return t
    ctx.count(f"tag_function_style[{tagstyle}]")
    inst = Instance.from_sequence_and_distance(
        list(objs), lambda a, b: df(unwrap(a)[1], unwrap(b)[1]), power,
        horizon, ("pos",), get_tags,
        name=("seq" if len(objs) % 2 else None))
    ctx.count("instances_judged")
    ctx.count(f"dist[{dk}]")
    # oracle: representatives
    reps = []
    rep_of = {}
    rep_pairs = []      # (tag of the object, index of its representative)
    for pos, v in (unwrap(o) for o in objs):
        for ri, (rp, rv) in enumerate(reps):
            if df(v, rv) == 0:
                rep_of[pos] = ri
                rep_pairs.append((pos, ri))
                break
        else:
            rep_of[pos] = len(reps)
            rep_pairs.append((pos, len(reps)))
            reps.append((pos, v))
    k = len(reps)
    dup = k < len(objs)
    if dup:
        ctx.count("with_duplicates")
    if inst.n != k:
        ctx.violation("n-differs-from-number-of-classes",
                      f"instance.n = {inst.n}, zero-distance classes = {k}",
                      case)
        return
    # tags
    got = []
    okt = True
    for tag, idx in inst.tags:
        if len(tag) != 1 or not tag[0].isdigit():
            okt = False
            break
        got.append((int(tag[0]), int(idx)))
    if not okt or sorted(got) != sorted(rep_pairs):
        ctx.violation("tags-do-not-map-to-representatives",
                      f"tags give {sorted(got)}, oracle {sorted(rep_pairs)}",
                      case)
    D = np.asarray(inst.distances)
    Fl = np.asarray(inst.flows)
    if D.shape != (k, k) or Fl.shape != (k, k):
        ctx.violation("matrix-shape", f"{D.shape} {Fl.shape}", case)
        return
    for i in range(k):
        for j in range(k):
            if int(D[i, j]) != abs(i - j):
                ctx.violation("position-distance-not-abs-i-j",
                              f"distances[{i}][{j}] = {D[i, j]}", case)
                return
    hz = min(k - 1, horizon)
    if inst.horizon != hz:
        ctx.violation("horizon-attribute", f"{inst.horizon} != {hz}", case)
    tie = False
    rows_judged = range(k)
    if k > 40:
        # the pairwise flow clauses are cubic: a sample of rows (first, last,
        # around the type limits) for large instances
        rows_judged = sorted({0, 1, k - 1, k // 2, min(k - 1, 127),
                              min(k - 1, 128), min(k - 1, 129)})
        ctx.count("big_instances_judged")
        ctx.count(f"big_n[{k}]")
    for i in rows_judged:
        row = [df(reps[i][1], reps[j][1]) for j in range(k)]
        # neighbours are ranked among each other (1 = nearest); an object is
        # not its own neighbour, whatever the function says about d(x, x)
        rk = avg_ranks([-1 if j == i else row[j] for j in range(k)])
        if int(Fl[i, i]) != 0:
            ctx.violation("flow-diagonal-nonzero", f"flows[{i}][{i}] = "
                          f"{Fl[i, i]}", case)
            return
        for a in range(k):
            if a == i:
                continue
            fa = int(Fl[i, a])
            if fa < 0:
                ctx.violation("flow-negative", f"flows[{i}][{a}]={fa}", case)
                return
            if rk[a] > horizon:
                ctx.count("beyond_horizon_entries")
                if fa != 0:
                    ctx.violation(
                        "flow-nonzero-beyond-horizon",
                        f"flows[{i}][{a}] = {fa} although the average rank "
                        f"{rk[a]} exceeds the horizon {horizon}", case)
                    return
            else:
                ctx.count("inside_horizon_entries")
                if fa > 0:
                    ctx.count("positive_inside_horizon")
                else:
                    # package documentation: "only the [horizon] nearest
                    # neighbors would be considered ... anything farther away
                    # ... get[s] a flow of 0": inside the horizon the flow is
                    # (max_val - rank + 1)^power >= 1
                    ctx.violation(
                        "flow-zero-inside-horizon",
                        f"flows[{i}][{a}] = 0 although the average rank "
                        f"{rk[a]} is within the horizon {horizon}", case)
                    return
            for b in range(a + 1, k):
                if b == i:
                    continue
                fb = int(Fl[i, b])
                if row[a] == row[b]:
                    if rk[a] <= horizon:
                        tie = True
                    if fa != fb:
                        ctx.violation(
                            "flow-differs-for-equal-distance",
                            f"row {i}: objects {a} and {b} are equally "
                            f"distant but flows are {fa} and {fb}", case)
                        return
                elif (row[a] < row[b] and fa < fb) or \
                        (row[b] < row[a] and fb < fa):
                    ctx.violation(
                        "flow-smaller-for-nearer-neighbour",
                        f"row {i}: distances {row[a]}, {row[b]} but flows "
                        f"{fa}, {fb}", case)
                    return
    if tie:
        ctx.count("ties_inside_horizon")
    if dup and tie:
        ctx.nontrivial(case)
    return inst


def run_shard(ctx, args):
    rng = ctx.rng
    if args["mode"] == "swap":
        for n in range(1, args["maxlen"] + 1):
            swap_exhaustive(ctx, n)
        for _ in range(300):
            n = int(rng.integers(1, 40))
            swap_public(ctx, [int(v) for v in rng.permutation(n)],
                        [int(v) for v in rng.permutation(n)])
        # lengths around 2^7 .. 2^16 (scratch / index types change there);
        # also few long cycles, many fixed points
        for n in (127, 128, 129, 255, 256, 257, 2047, 2048, 2049, 4097,
                  32767, 32768, 65536, 65537):
            for kind in range(3):
                p1 = [int(v) for v in rng.permutation(n)]
                if kind == 0:
                    p2 = [int(v) for v in rng.permutation(n)]
                elif kind == 1:
                    p2 = p1[1:] + p1[:1]          # one cycle of length n
                else:
                    p2 = list(p1)
                    i, j = (int(v) for v in rng.choice(n, 2, replace=False))
                    p2[i], p2[j] = p2[j], p2[i]   # one transposition
                swap_public(ctx, p1, p2)
                ctx.count("swap_long_permutations")
        ctx.sample({"swap_distance": "all pairs up to length "
                    f"{args['maxlen']}", "example": [[2, 0, 1], [0, 1, 2]]})
        return
    for it in range(args["n"]):
        if it % 50 == 17:
            case = gen_big_sequence(rng)
        elif it % 25 == 3:
            # EVERY object count from 12 to 140 in turn
            case = gen_big_sequence(
                rng, 12 + (it // 25 + 11 * ctx.shard_idx) % 129)
            ctx.count("every_object_count_sequences")
        else:
            case = gen_sequence(rng)
        case["kind"] = "inst"
        inst = judge_instance(ctx, case)
        if it % 200 == 0 and inst is not None:
            ctx.sample({"case": case, "n": inst.n,
                        "flows": np.asarray(inst.flows).tolist()[:4],
                        "tags": [list(t) for t in inst.tags][:6]})


def replay(ctx, case):
    if case["kind"] == "swap":
        swap_public(ctx, case["p1"], case["p2"])
    elif case["kind"] == "swapn":
        swap_exhaustive(ctx, case["n"])
    else:
        judge_instance(ctx, case)
