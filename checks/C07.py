"""C07 - TTP error count is zero exactly for feasible schedules."""
from __future__ import annotations

import numpy as np

from vlib.oracles import ttp as ot

PID = "C07"
RULE = ("(a) EXHAUSTIVE: all 12^6 day-wise consistent four-team double "
        "round-robin plans x a set of constraint settings, evaluated by the "
        "repository's count_errors inside a harness-side compiled loop; the "
        "zero set must equal the feasible set found by an independent pruned "
        "DFS and every value must equal the documented per-rule count "
        "(harness run-length counter, itself cross-checked against the "
        "plain-Python oracle on a sample); (b) random plans over -n..n with "
        "byes, inconsistencies and self-pairings for n=2..12, rounds 1..3 "
        "through Errors.evaluate on real GamePlan objects: zero iff feasible, "
        "0 <= value <= upper_bound(); (c) circle-method round robins "
        "(mirrored or not) and single/multi-cell edits: per-rule equality; "
        "(d) upper-bound hunters (constant columns, cyclic shifts). "
        "non-trivial = distinct consistent plans with >= 1 rule violation, "
        "plus all feasible plans")
LEVEL_ASSUMPTIONS = [
    "oracle vlib/oracles/ttp.py (feasibility predicate and per-rule counter "
    "written from the property text / count_errors documentation)",
    "the harness' compiled per-rule counter is validated against the "
    "plain-Python oracle on >= 2000 sampled plans per setting in every run"]
_REQUIRED = {"exhaustive_plans": 2_985_984, "feasible_plans_confirmed": 1,
            "many_days_or_teams_plans": 20, "random_plans": 1000,
            "consistent_with_rule_violation": 200,
            "bye_consistent_plans": 100,
            "njit_oracle_cross_checked": 2000}

SETTINGS_QUICK = [(2, 1, 3, 1, 3, 1, 6), (2, 2, 3, 2, 3, 1, 6),
                  (2, 1, 3, 2, 3, 1, 6),
                  (2, 1, 2, 1, 2, 0, 6)]
SETTINGS_THOROUGH = SETTINGS_QUICK + [
    (2, 1, 3, 1, 3, 0, 6), (2, 1, 3, 1, 3, 2, 6), (2, 1, 3, 1, 3, 1, 3),
    (2, 2, 4, 1, 3, 1, 6), (2, 1, 3, 2, 4, 0, 4), (2, 2, 2, 2, 2, 0, 6),
    (2, 1, 6, 1, 6, 0, 6), (2, 3, 3, 1, 3, 1, 6), (2, 1, 3, 1, 3, 2, 2),
    (2, 1, 4, 1, 4, 1, 2), (2, 2, 3, 2, 3, 0, 2)]


def plan(tier: str, seed: int):
    # plus a thread-stress shard (vlib/threads.py)
    return _plan_nothreads(tier, seed) + [
        {"name": "threads", "engine": "jit", "timeout": 3000,
         "args": {"mode": "threads", "n": 4 if tier == "quick" else 60}}]


def _plan_nothreads(tier: str, seed: int):
    settings = SETTINGS_QUICK if tier == "quick" else SETTINGS_THOROUGH
    shards = [{"name": f"exh{i}", "engine": "jit",
               "args": {"mode": "exhaustive", "cfg": list(c)},
               "timeout": 1800} for i, c in enumerate(settings)]
    nr = 4 if tier == "quick" else 16
    per = 1500 if tier == "quick" else 100000
    for i in range(nr):
        shards.append({"name": f"rnd{i}", "engine": "jit",
                       "args": {"mode": "random", "n": per},
                       "timeout": 3000})
    return shards


def REQUIRED_fn(tier):  # noqa: N802
    r = dict(_REQUIRED)
    r["every_even_team_count_plans"] = 100
    k = len(SETTINGS_QUICK if tier == "quick" else SETTINGS_THOROUGH)
    r["exhaustive_plans"] = 2_985_984 * k
    r["feasible_plans_confirmed"] = 1
    r["concurrent_error_counts"] = 2000
    r["sign_flip_neighbours"] = 30000
    r["njit_oracle_cross_checked"] = 2000 * k
    return r


REQUIRED = REQUIRED_fn  # type: ignore

_INST = {}
_ALIAS = [0]
CLONE = [0]
STALE = [0]


def make_instance(n, cfg, matrix=None, layout="C"):
    from moptipyapps.ttp.instance import Instance
    key = (n, tuple(cfg))
    if matrix is None and key in _INST:
        return _INST[key]
    rounds, hmin, hmax, amin, amax, smin, smax = cfg
    if matrix is None:
        m = np.zeros((n, n), int)
        for i in range(n):
            for j in range(n):
                if i != j:
                    m[i, j] = 1 + abs(i - j)
    else:
        from vlib.workloads.arrays import relayout
        m = relayout(np.array(matrix, int), layout)
    iname = f"v{n}r{rounds}"
    if matrix is not None and _ALIAS[0] % 5 == 3:
        iname = f"circ{n}"       # the name of a shipped instance
    inst = Instance(iname, m, [f"t{i}" for i in range(n)],
                    rounds, hmin, hmax, amin, amax, smin, smax)
    if matrix is not None:
        # every other instance is built again from an array that already has
        # the storage type the instance selects; the caller then re-uses
        # that buffer ("the matrix will be copied")
        _ALIAS[0] += 1
        if _ALIAS[0] % 2 == 0:
            # in the storage type itself, or in the narrowest signed /
            # unsigned type that holds the distances
            mx = max(max(r) for r in matrix)
            kind = (_ALIAS[0] // 2) % 3
            if kind == 0:
                bdt = inst.dtype
            elif kind == 1:
                bdt = next(t for t in (np.int8, np.int16, np.int32, np.int64)
                           if mx <= np.iinfo(t).max)
            else:
                bdt = next(t for t in (np.uint8, np.uint16, np.uint32,
                                       np.uint64) if mx <= np.iinfo(t).max)
            buf = np.array(matrix, dtype=bdt)
            inst = Instance(iname, buf,
                            [f"t{i}" for i in range(n)], rounds, hmin, hmax,
                            amin, amax, smin, smax)
            buf[:, :] = buf.T.copy() * 3 + 1
            np.fill_diagonal(buf, 7)
        elif _ALIAS[0] % 6 == 5:
            # the matrix argument is itself an instance of the package (the
            # library's own documentation re-creates instances that way) -
            # one built for ANOTHER matrix and other settings, then
            # overwritten in place: what it remembers about itself is stale
            mm = np.array(matrix, np.int64)
            other = np.maximum(mm, mm.T) * 2 + 1
            np.fill_diagonal(other, 0)
            if bool((mm == mm.T).all()):
                other[0, 1] += 3
            try:
                src = Instance(iname + "o", other,
                               [f"o{i}" for i in range(n)], rounds + 1,
                               1, rounds * n, 1, rounds * n, 0, rounds * n)
            except ValueError:
                src = None
            if src is not None and int(np.iinfo(src.dtype).max) >= int(
                    mm.max()):
                src[:, :] = mm
                inst = Instance(iname, src, [f"t{i}" for i in range(n)],
                                rounds, hmin, hmax, amin, amax, smin, smax)
                src[:, :] = 1
                STALE[0] += 1
    if matrix is None:
        _INST[key] = inst
    return inst


_OBJ = {}


def errors_obj(inst):
    from moptipyapps.ttp.errors import Errors
    k = id(inst)
    if k not in _OBJ:
        _OBJ[k] = (inst, Errors(inst))
    return _OBJ[k][1]


def temps(obj, n, D):
    t1 = getattr(obj, "_Errors__temp_1", None)
    t2 = getattr(obj, "_Errors__temp_2", None)
    if t1 is None or t2 is None:
        from moptipy.utils.nputils import int_range_to_dtype
        dt = int_range_to_dtype(-1, D)
        t1 = np.empty(n * (n - 1) // 2, dt)
        t2 = np.empty((n, n), dt)
    return t1, t2


# -- harness-side compiled helpers -----------------------------------------
_JIT = {}


def jit_helpers():
    if _JIT:
        return _JIT
    import numba

    from moptipyapps.ttp.errors import count_errors

    @numba.njit(cache=False)
    def enum_repo(cfgs, D, hmin, hmax, amin, amax, smin, smax, t1, t2, out):
        ncfg = cfgs.shape[0]
        n = cfgs.shape[1]
        plan = np.empty((D, n), cfgs.dtype)
        for idx in range(out.shape[0]):
            r = idx
            for d in range(D):
                plan[d, :] = cfgs[r % ncfg]
                r //= ncfg
            out[idx] = count_errors(plan, hmin, hmax, amin, amax, smin, smax,
                                    t1, t2)

    @numba.njit(cache=False)
    def rule_total(plan, rounds, hmin, hmax, amin, amax, smin, smax):
        """Harness oracle (consistent plans): run-length based totals."""
        D, n = plan.shape
        total = 0
        for t in range(n):
            ln = 0
            home = False
            for d in range(D + 1):
                cur = plan[d, t] > 0 if d < D else (not home)
                if d > 0 and cur != home:
                    # close run
                    if home:
                        if ln < hmin:
                            total += hmin - ln
                        if ln > hmax:
                            total += ln - hmax
                    else:
                        if ln < amin:
                            total += amin - ln
                        if ln > amax:
                            total += ln - amax
                    ln = 0
                home = cur
                ln += 1
        want = D // (n - 1)
        for a in range(n):
            for b in range(a):
                last = -1
                ab = 0
                ba = 0
                for d in range(D):
                    v = plan[d, a]
                    if v == b + 1 or v == -(b + 1):
                        if v > 0:
                            ab += 1
                        else:
                            ba += 1
                        if last >= 0:
                            gap = d - last - 1
                            if gap < smin:
                                total += smin - gap
                            if gap > smax:
                                total += gap - smax
                        last = d
                total += abs(ab + ba - want)
                if abs(ab - ba) > 1:
                    total += abs(ab - ba) - 1
        return total

    @numba.njit(cache=False)
    def enum_oracle(cfgs, D, rounds, hmin, hmax, amin, amax, smin, smax, out):
        ncfg = cfgs.shape[0]
        n = cfgs.shape[1]
        plan = np.empty((D, n), cfgs.dtype)
        for idx in range(out.shape[0]):
            r = idx
            for d in range(D):
                plan[d, :] = cfgs[r % ncfg]
                r //= ncfg
            out[idx] = rule_total(plan, rounds, hmin, hmax, amin, amax, smin,
                                  smax)

    _JIT.update(enum_repo=enum_repo, enum_oracle=enum_oracle,
                rule_total=rule_total)
    return _JIT


def idx_to_plan(idx, cfgs, D):
    plan = []
    r = idx
    for _ in range(D):
        plan.append(list(cfgs[r % len(cfgs)]))
        r //= len(cfgs)
    return plan


def last_streak_shortfall(plan, cfg) -> int:
    """Shortfall of the runs that are still open on the last day."""
    rounds, hmin, hmax, amin, amax, smin, smax = cfg
    n = len(plan[0])
    tot = 0
    for t in range(n):
        home, ln = ot._runs([day[t] for day in plan])[-1]
        tot += max(0, (hmin if home else amin) - ln)
    return tot


def diff_mech(plan, cfg, value, oracle_total) -> str:
    """Mechanism key of a value != per-rule count disagreement."""
    if oracle_total - value == last_streak_shortfall(plan, cfg) != 0:
        return "value-differs:open-last-streak-shortfall-not-counted"
    rc = ot.rule_counts(plan, cfg)
    if value < oracle_total:
        return "value-below-per-rule-count"
    return "value-above-per-rule-count"


def classify_ub(ctx, value, ub, n, D, cfg, case):
    """0 <= value <= upper_bound(), with the D4 known-finding classifier."""
    if value < 0:
        ctx.violation("negative-error-count", f"value {value} < 0", case)
        return
    if value <= ub:
        return
    documented = (4 * D - 1) * n - 1
    sound = ot.sound_upper_bound(n, D, cfg)
    if ub == documented and value <= sound:
        ctx.violation(
            "upper-bound-documented-formula-exceeded",
            f"value {value} > upper_bound() = {ub} = (4D-1)n-1 for n={n}, "
            f"D={D}, cfg={cfg} (within the harness' sound bound {sound})",
            case)
    else:
        ctx.violation(
            "value-above-upper-bound:other",
            f"value {value} > upper_bound() = {ub} (documented formula gives "
            f"{documented}, sound bound {sound})", case)


def exhaustive(ctx, cfg):
    cfg = tuple(cfg)
    rounds, hmin, hmax, amin, amax, smin, smax = cfg
    n = 4
    D = (n - 1) * rounds
    inst = make_instance(n, cfg)
    obj = errors_obj(inst)
    ub = obj.upper_bound()
    cfgs_l = ot.day_configs(n)
    cfgs = np.array(cfgs_l, dtype=inst.game_plan_dtype)
    total = len(cfgs_l) ** D
    t1, t2 = temps(obj, n, D)
    h = jit_helpers()
    out = np.empty(total, np.int64)
    h["enum_repo"](cfgs, D, hmin, hmax, amin, amax, smin, smax, t1, t2, out)
    ctx.case(total)
    ctx.count("exhaustive_plans", total)
    ctx.mark_exhaustive(f"all 12^6 consistent four-team plans, cfg={cfg}")
    # oracle values
    ora = np.empty(total, np.int64)
    h["enum_oracle"](cfgs, D, rounds, hmin, hmax, amin, amax, smin, smax, ora)
    # cross-check the compiled oracle against the plain-Python one
    rng = ctx.rng
    sample = list(rng.integers(0, total, 2000)) + list(
        np.flatnonzero(ora == 0)[:200])
    for idx in sample:
        p = idx_to_plan(int(idx), cfgs_l, D)
        want = sum(ot.rule_counts(p, cfg).values())
        ctx.count("njit_oracle_cross_checked")
        if want != ora[idx]:
            ctx.inconclusive_because(
                f"harness oracles disagree on plan {idx}: {want} vs "
                f"{ora[idx]}")
            return
    # feasible set by DFS
    feas = ot.feasible_set_dfs(n, cfg)
    feas_idx = set()
    for tup in feas:
        v = 0
        for d, ci in enumerate(tup):
            v += ci * (len(cfgs_l) ** d)
        feas_idx.add(v)
    ora_zero = set(int(i) for i in np.flatnonzero(ora == 0))
    if ora_zero != feas_idx:
        ctx.inconclusive_because(
            f"harness oracles disagree: DFS feasible set {len(feas_idx)} vs "
            f"per-rule zero set {len(ora_zero)}")
        return
    ctx.count("feasible_plans_in_space", len(feas_idx))
    zero = set(int(i) for i in np.flatnonzero(out == 0))
    ctx.count("repo_zero_plans", len(zero))
    for idx in sorted(zero - feas_idx)[:3]:
        p = idx_to_plan(idx, cfgs_l, D)
        ctx.violation(
            "zero-for-infeasible:" + (ot.infeasibility(p, cfg) or "?")
            .split("(")[0].strip().replace("away", "X").replace("home", "X"),
            f"count_errors = 0 for an infeasible plan "
            f"({ot.infeasibility(p, cfg)}); {len(zero - feas_idx)} such plans "
            f"of 12^6 with cfg={cfg}",
            {"kind": "plan", "n": n, "cfg": list(cfg), "plan": p})
    for idx in sorted(feas_idx - zero)[:3]:
        p = idx_to_plan(idx, cfgs_l, D)
        ctx.violation("nonzero-for-feasible",
                      f"count_errors = {out[idx]} for a feasible plan",
                      {"kind": "plan", "n": n, "cfg": list(cfg), "plan": p})
    ctx.count("feasible_plans_confirmed", len(feas_idx & zero))
    # the sign-flip neighbourhood of feasible plans: negating one or two
    # cells keeps every opponent but breaks the home/away roles (unless the
    # two cells are the two sides of one game); such a plan is not a
    # schedule, whatever the counts and streaks say
    from moptipyapps.ttp.game_plan import GamePlan
    gp = GamePlan(inst)
    fl = sorted(feas_idx)
    pick = [fl[int(i)] for i in rng.permutation(len(fl))[:120]]
    cells = [(d, t) for d in range(D) for t in range(n)]
    for idx in pick:
        base = idx_to_plan(idx, cfgs_l, D)
        flips = [(c,) for c in cells] + [
            (cells[a], cells[b]) for a in range(len(cells))
            for b in range(a + 1, len(cells))]
        for fs in flips:
            gp[:, :] = base
            for (d, t) in fs:
                gp[d, t] = -gp[d, t]
            ctx.count("sign_flip_neighbours")
            v = obj.evaluate(gp)
            if v == 0:
                pl = [[int(x) for x in row] for row in gp]
                why = ot.infeasibility(pl, cfg)
                if why is not None:
                    ctx.violation(
                        "zero-for-infeasible:roles-inconsistent",
                        f"count_errors = 0 for a feasible plan with the "
                        f"signs of cells {list(fs)} flipped ({why})",
                        {"kind": "plan", "n": n, "cfg": list(cfg),
                         "plan": pl})
                    break
                ctx.count("sign_flip_neighbours_still_feasible")
        else:
            continue
        break
    for idx in feas_idx:
        ctx.nontrivial("feasible", cfg, idx)
    diff = np.flatnonzero(out != ora)
    ctx.count("consistent_with_rule_violation", int((ora > 0).sum()))
    ctx.count("values_equal_to_per_rule_count", int(total - len(diff)))
    # distinct non-trivial: consistent plans with >= 1 violation (count them
    # by hashing a sample only; the number itself is in the counters)
    for idx in np.flatnonzero(ora > 0)[:5000]:
        ctx.nontrivial("exh", cfg, int(idx))
    seen = set()
    for idx in diff[:20000]:
        p = idx_to_plan(int(idx), cfgs_l, D)
        rc = ot.rule_counts(p, cfg)
        # which rules are involved -> mechanism key
        if ora[idx] == 0:
            continue    # already reported above as zero/feasible mismatch
        mech = diff_mech(p, cfg, int(out[idx]), int(ora[idx]))
        if mech in seen:
            continue
        seen.add(mech)
        ctx.violation(mech,
                      f"count_errors = {out[idx]}, documented per-rule count "
                      f"= {ora[idx]} {rc}; {len(diff)} differing plans of "
                      f"12^6 with cfg={cfg}",
                      {"kind": "plan", "n": n, "cfg": list(cfg), "plan": p})
    mx = int(out.max())
    ctx.seen_max("max_value_exhaustive", mx)
    if mx > ub or int(out.min()) < 0:
        idx = int(out.argmax()) if mx > ub else int(out.argmin())
        classify_ub(ctx, int(out[idx]), ub, n, D, cfg,
                    {"kind": "plan", "n": n, "cfg": list(cfg),
                     "plan": idx_to_plan(idx, cfgs_l, D)})
    ctx.sample({"cfg": list(cfg), "feasible_plans": len(feas_idx),
                "repo_zero_plans": len(zero), "max_value": mx,
                "upper_bound": ub,
                "a_feasible_plan": idx_to_plan(min(feas_idx), cfgs_l, D)
                if feas_idx else None})


# -- random / constructed plans through the public objects -----------------
def eval_plan(ctx, n, cfg, plan_rows, tag, matrix=None):
    from moptipyapps.ttp.game_plan import GamePlan
    from moptipyapps.ttp.game_plan_space import GamePlanSpace
    cfg = tuple(cfg)
    inst = make_instance(n, cfg, matrix)
    obj = errors_obj(inst)
    D = (n - 1) * cfg[0]
    gp = GamePlan(inst)
    gp[:, :] = np.array(plan_rows, dtype=np.int64)
    GamePlanSpace(inst).validate(gp)      # "accepted by the game-plan space"
    ctx.case()
    ctx.count("random_plans")
    ctx.count(f"tag[{tag}]")
    v = obj.evaluate(gp)
    case = {"kind": "plan", "n": n, "cfg": list(cfg), "plan": plan_rows,
            "tag": tag}
    CLONE[0] += 1
    if CLONE[0] % 8 == 0 and isinstance(v, int):
        from vlib.clones import judge_clones
        judge_clones(ctx, obj, lambda o: (o.evaluate(gp), o.upper_bound()),
                     (v, obj.upper_bound()), "error-count", case)
    if isinstance(v, bool) or not isinstance(v, int):
        ctx.violation("value-type", f"evaluate returned {type(v)}", case)
        return None
    why = ot.infeasibility(plan_rows, cfg)
    if (v == 0) != (why is None):
        if v == 0:
            ctx.violation("zero-for-infeasible:" + why.split("(")[0].strip()
                          .split(":")[0].replace("away", "X")
                          .replace("home", "X"),
                          f"Errors = 0 but the plan is infeasible: {why}",
                          case)
        else:
            ctx.violation("nonzero-for-feasible",
                          f"Errors = {v} for a feasible plan", case)
    classify_ub(ctx, v, obj.upper_bound(), n, D, cfg, case)
    ctx.seen_max(f"max_value[n={n}]", v)
    if ot.is_consistent(plan_rows):
        ctx.count("consistent_plans")
        rc = ot.rule_counts(plan_rows, cfg)
        tot = sum(rc.values())
        if tot:
            ctx.count("consistent_with_rule_violation")
            ctx.nontrivial(n, cfg, plan_rows)
            for k, val in rc.items():
                if val:
                    ctx.count(f"rule_seen[{k}]")
        elif why is None:
            ctx.count("feasible_plans_confirmed")
            ctx.nontrivial(n, cfg, plan_rows)
        if v != tot:
            ctx.violation(diff_mech(plan_rows, cfg, v, tot),
                          f"Errors = {v}, documented per-rule count = {tot} "
                          f"{rc}", case)
    else:
        ctx.count("inconsistent_plans")
        # plans whose non-bye cells are mutually consistent (what the game
        # encoding produces): the documented count incl. one error per bye
        wb_ = ot.error_count_with_byes(plan_rows, cfg)
        if wb_ is not None:
            ctx.count("bye_consistent_plans")
            if v != wb_:
                ctx.violation(
                    "value-differs-from-per-rule-count:with-byes",
                    f"Errors = {v}, documented count with byes = {wb_}",
                    case)
    return v


def random_cfg(rng, n, rounds):
    ll = rounds * n - 1
    D = (n - 1) * rounds
    hmin = int(rng.integers(1, 4))
    hmax = int(rng.integers(hmin, max(hmin, min(ll, hmin + 3)) + 1))
    amin = int(rng.integers(1, 4))
    amax = int(rng.integers(amin, max(amin, min(ll, amin + 3)) + 1))
    hmin, amin = min(hmin, ll), min(amin, ll)
    hmax, amax = max(hmin, min(hmax, ll)), max(amin, min(amax, ll))
    smin = int(rng.integers(0, 3))
    smax = int(rng.integers(smin, max(smin, min(ll, D)) + 1))
    smin = min(smin, ll)
    smax = max(smin, min(smax, ll))
    if rng.integers(3) == 0:
        return (rounds, 1, min(3, ll), 1, min(3, ll), min(1, ll),
                min(ll, max(1, D)))
    return (rounds, hmin, hmax, amin, amax, smin, smax)


def random_shard(ctx, count):
    rng = ctx.rng
    for it in range(count):
        n = int(rng.choice([2, 4, 4, 6, 6, 8, 10, 12]))
        rounds = int(rng.choice([1, 2, 2, 3]))
        if it % 9 == 4 or (ctx.engine == "py" and it % 3 == 1):
            # many days / many teams: day indices and team ids cross the
            # int8 / uint8 limits (127/128, 255/256) - `rounds` is a public
            # parameter of the instance
            n, rounds = [(4, 42), (4, 43), (4, 44), (4, 85), (4, 86),
                         (4, 100), (6, 26), (6, 52), (8, 19), (40, 4),
                         (126, 1), (128, 1), (64, 3)][int(rng.integers(13))]
            ctx.count("many_days_or_teams_plans")
        elif it % 7 == 5:
            # EVERY even team count from 14 to 62 in turn, one or two rounds
            n = 14 + 2 * ((it // 7 + ctx.shard_idx * 7) % 25)
            rounds = 1 + (it // 7) % 2
            ctx.count("every_even_team_count_plans")
        cfg = random_cfg(rng, n, rounds)
        D = (n - 1) * rounds
        kind = it % 8
        if kind == 0:
            p = [[int(v) for v in rng.integers(-n, n + 1, n)]
                 for _ in range(D)]
            tag = "uniform"
        elif kind in (1, 2, 3):
            mirrored = bool(rng.integers(2))
            p = ot.circle_method(n, rounds, mirrored)
            # random relabel + day shuffle keeps consistency
            perm = list(rng.permutation(n))
            q = []
            for day in p:
                nd = [0] * n
                for a, v in enumerate(day):
                    b = abs(v) - 1
                    nd[perm[a]] = (perm[b] + 1) * (1 if v > 0 else -1)
                q.append(nd)
            if rng.integers(2):
                rng.shuffle(q)
            p = q
            tag = "circle"
            if kind == 2:
                # flip the orientation of some games (stays consistent)
                for _ in range(int(rng.integers(1, 6))):
                    d = int(rng.integers(D))
                    a = int(rng.integers(n))
                    b = abs(p[d][a]) - 1
                    p[d][a], p[d][b] = -p[d][a], -p[d][b]
                tag = "circle+flips"
            if kind == 3:
                # single/multi-cell edits (break consistency / add byes)
                for _ in range(int(rng.integers(1, 4))):
                    d = int(rng.integers(D))
                    a = int(rng.integers(n))
                    p[d][a] = int(rng.integers(-n, n + 1))
                tag = "circle+edits"
        elif kind == 4:
            # consistent random days
            cfgs = ot.day_configs(n) if n <= 6 else None
            p = []
            for _ in range(D):
                if cfgs is not None:
                    p.append(list(cfgs[int(rng.integers(len(cfgs)))]))
                else:
                    order = list(rng.permutation(n))
                    day = [0] * n
                    for i in range(0, n, 2):
                        a, b = order[i], order[i + 1]
                        if rng.integers(2):
                            a, b = b, a
                        day[a] = b + 1
                        day[b] = -(a + 1)
                    p.append(day)
            tag = "consistent-random"
        elif kind == 5:
            # upper-bound hunters: constant columns
            sub = int(rng.integers(4))
            if sub == 0:
                p = [[((a + 1) % n) + 1 for a in range(n)] for _ in range(D)]
                tag = "hunter:home-vs-next"
            elif sub == 1:
                p = [[-(((a + 1) % n) + 1) for a in range(n)]
                     for _ in range(D)]
                tag = "hunter:away-at-next"
            elif sub == 2:
                s = int(rng.integers(1, n))
                p = [[(((a + s + d) % n) + 1) * (1 if (d + a) % 2 else -1)
                      for a in range(n)] for d in range(D)]
                tag = "hunter:cyclic"
            else:
                p = [[0] * n for _ in range(D)]
                for d in range(D):
                    for a in range(n):
                        if rng.integers(3) == 0:
                            p[d][a] = (a + 1) * int(rng.choice([-1, 1]))
                tag = "byes+self"
        elif kind == 6:
            # self-pairings sprinkled into a consistent plan
            p = ot.circle_method(n, rounds, True)
            for _ in range(int(rng.integers(1, 4))):
                d = int(rng.integers(D))
                a = int(rng.integers(n))
                p[d][a] = (a + 1) * int(rng.choice([-1, 1]))
            tag = "self-pairing"
        elif it % 16 == 7:
            p = [[int(rng.choice([-n, n, 0, 1, -1])) for _ in range(n)]
                 for _ in range(D)]
            tag = "extremes"
        else:
            # consistent days with some games removed (byes on both sides)
            p = ot.circle_method(n, rounds, bool(rng.integers(2)))
            for _ in range(int(rng.integers(1, 1 + max(1, D // 2)))):
                d = int(rng.integers(D))
                a = int(rng.integers(n))
                b = abs(p[d][a]) - 1
                if p[d][a] != 0:
                    p[d][a] = 0
                    p[d][b] = 0
            if rng.integers(2):
                rng.shuffle(p)
            tag = "consistent-with-byes"
        eval_plan(ctx, n, cfg, p, tag)
        if it % 400 == 0:
            ctx.sample({"n": n, "cfg": list(cfg), "tag": tag,
                        "plan_first_days": p[:3]})


def threads_shard(ctx, args):
    """One shared TTP instance, every thread its own Errors objective and
    its own plans."""
    from moptipyapps.ttp.errors import Errors
    from moptipyapps.ttp.game_plan import GamePlan
    from vlib.threads import stress
    rng = ctx.rng
    for _ in range(args["n"]):
        n = int(rng.choice([4, 6, 8, 12]))
        rounds = int(rng.choice([1, 2, 3]))
        cfg = random_cfg(rng, n, rounds)
        inst = make_instance(n, cfg)
        D = (n - 1) * rounds
        plans = []
        for _k in range(8):
            p = ot.circle_method(n, rounds, bool(rng.integers(2)))
            for _e in range(int(rng.integers(0, 4))):
                p[int(rng.integers(D))][int(rng.integers(n))] = int(
                    rng.integers(-n, n + 1))
            plans.append(p)
        o0 = Errors(inst)
        ref = []
        for p in plans:
            gp = GamePlan(inst)
            gp[:, :] = p
            ref.append(int(o0.evaluate(gp)))

        def jobs_for(tid):
            o = Errors(inst)
            gps = []
            for p in plans:
                gp = GamePlan(inst)
                gp[:, :] = p
                gps.append(gp)
            return [lambda g=g: int(o.evaluate(g)) for g in gps]
        if not stress(ctx, "error_counts", jobs_for, ref,
                      lambda a, b: a == b, loops=60):
            return

def run_shard(ctx, args):
    if args.get("mode") == "threads":
        return threads_shard(ctx, args)
    if args["mode"] == "exhaustive":
        exhaustive(ctx, args["cfg"])
    else:
        random_shard(ctx, args["n"])


def replay(ctx, case):
    eval_plan(ctx, case["n"], case["cfg"], case["plan"],
              case.get("tag", "replay"))
    # the exhaustive witnesses call count_errors directly; the public object
    # path above runs the same kernel on the same plan.
