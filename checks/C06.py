"""C06 - TSP-specific (1+1) EA and FEA report true tour lengths."""
from __future__ import annotations

import numpy as np

PID = "C06"
RULE = ("symmetric instances: synthetic n = 4..30 (ties, zeros, 10^9-scale "
        "entries, sums near int8/int16 edges) and small shipped ones; real "
        "moptipy Executions of TSPEA1p1revn / TSPFEA1p1revn with budgets "
        "1..5000 FEs and many seeds, observed through (i) wrappers bound to "
        "the module-level move kernels (arguments, x before/after, result, "
        "frequency-table addresses) and (ii) a process proxy recording every "
        "evaluate()/register() pair; plus, for n <= 8, EVERY admissible "
        "(i, j) from several start tours driven through the kernels "
        "directly. Oracle: x is a permutation, reported value = exact cyclic "
        "sum over the original matrix, EA value never increases, FEA "
        "addresses y and y+dy lie in [0, ub] and len(h) == ub+1. "
        "non-trivial = distinct (instance, algorithm, seed) runs with >= 10 "
        "accepted moves")
LEVEL_ASSUMPTIONS = [
    "oracle: Python-int cyclic sum; the wrappers replace the module globals "
    "ea1p1_revn.rev_if_not_worse / fea1p1_revn.rev_if_h_not_worse that "
    "solve() looks up at call time (zero wrapper calls => inconclusive)"]
REQUIRED = {"same_name_sibling_histories": 20,
            "big_direct_long_segments_accepted": 4,
            "created_points_with_arbitrary_contents": 20,
            "runs_with_entries_above_2^31": 10,
            # the public kernels are always driven directly; whether solve()
            # itself goes through them is the implementation's business (the
            # pairs it registers are judged at the process boundary)
            "kernel_calls_ea": 500, "kernel_calls_fea": 500,
            "register_events": 10000, "moves_i0": 200, "moves_j_nm2": 200,
            "accepted_moves": 2000, "direct_all_ij_instances": 10,
            "runs": 100}


def plan(tier: str, seed: int):
    if tier == "quick":
        return [{"name": f"s{i}", "engine": "jit", "args": {"n": 60},
                 "timeout": 900} for i in range(4)]
    return [{"name": f"s{i}", "engine": "jit", "args": {"n": 1500},
             "timeout": 3400} for i in range(16)]


class Stop(Exception):
    pass


def exact(m, x):
    n = len(x)
    return sum(m[int(x[k - 1])][int(x[k])] for k in range(n))


def is_perm(x, n):
    return len(x) == n and sorted(int(v) for v in x) == list(range(n))


STATE = {"ctx": None, "m": None, "case": None, "accepted": 0, "ub": None}


def install_wrappers():
    import moptipyapps.tsp.ea1p1_revn as ea
    import moptipyapps.tsp.fea1p1_revn as fea
    if getattr(ea, "_verif_wrapped", False):
        return
    orig_ea = ea.rev_if_not_worse
    orig_fea = fea.rev_if_h_not_worse

    def w_ea(i, j, n, dist, x, y):
        ctx, m = STATE["ctx"], STATE["m"]
        ctx.count("kernel_calls_ea")
        before = [int(v) for v in x]
        y_before = int(y)
        r = orig_ea(i, j, n, dist, x, y)
        judge_move(ctx, m, "ea", int(i), int(j), n, before, y_before, x, r)
        if r > y_before:
            ctx.violation("ea-accepted-longer-tour",
                          f"EA kernel returned {r} > previous {y_before}",
                          STATE["case"])
            raise Stop
        return r

    def w_fea(i, j, n, dist, h, x, y):
        ctx, m = STATE["ctx"], STATE["m"]
        ctx.count("kernel_calls_fea")
        before = [int(v) for v in x]
        y_before = int(y)
        ub = STATE["ub"]
        # addresses the kernel is about to touch, by the oracle
        new = list(before)
        new[i:j + 1] = new[i:j + 1][::-1]
        # the two table entries the kernel is about to address: the value it
        # was handed for the current tour and that value plus the (exact)
        # length difference of the move
        y2 = y_before + exact(m, new) - exact(m, before)
        if not (0 <= y_before <= ub and 0 <= y2 <= ub
                and y_before < len(h) and y2 < len(h)):
            ctx.violation("fea-table-address-out-of-range",
                          f"addresses {y_before}, {y2} not in [0, {ub}] or "
                          f"outside the table of {len(h)} entries",
                          STATE["case"])
            raise Stop
        ctx.seen_max("fea_max_address_over_ub_permille",
                     int(1000 * max(y_before, y2) / max(1, ub)))
        r = orig_fea(i, j, n, dist, h, x, y)
        judge_move(ctx, m, "fea", int(i), int(j), n, before, y_before, x, r)
        return r

    ea.rev_if_not_worse = w_ea
    fea.rev_if_h_not_worse = w_fea
    ea._verif_wrapped = True
    ea._verif_orig = orig_ea
    fea._verif_orig = orig_fea


def judge_move(ctx, m, alg, i, j, n, before, y_before, x, r):
    after = [int(v) for v in x]
    if i == 0:
        ctx.count("moves_i0")
    if j == n - 2:
        ctx.count("moves_j_nm2")
    if j == i + 1:
        ctx.count("moves_adjacent")
    if not is_perm(after, n):
        ctx.violation(f"{alg}-x-not-a-permutation",
                      f"after move ({i},{j}) x = {after}", STATE["case"])
        raise Stop
    want = exact(m, after)
    # the kernel maintains the length incrementally: its result must differ
    # from the value it was handed by exactly the true change of the length
    # (absolute values are judged where they are registered)
    if isinstance(r, bool) or int(r) - y_before != want - exact(m, before):
        ctx.violation(f"{alg}-kernel-length-drift",
                      f"move ({i},{j}) n={n}: kernel returned {r} for input "
                      f"{y_before}, but the tour length changed from "
                      f"{exact(m, before)} to {want}", STATE["case"])
        raise Stop
    if after != before:
        ctx.count("accepted_moves")
        STATE["accepted"] += 1
        exp = list(before)
        exp[i:j + 1] = exp[i:j + 1][::-1]
        if after != exp:
            # which array represents the new tour is the kernel's business
            # (e.g. reversing the complementary cyclic segment gives the
            # same tour on a symmetric instance); permutation and exact
            # length were judged above
            ctx.count("moves_not_the_literal_segment_reversal")
        if want == exact(m, before):
            ctx.count("accepted_ties")


class Proxy:
    """Process proxy handed to solve(): records evaluate/register."""

    def __init__(self, process, ctx, m, n, alg):
        self._p = process
        self._ctx = ctx
        self._m = m
        self._n = n
        self._alg = alg
        self._last = None

    def __getattr__(self, name):
        return getattr(self._p, name)

    def _judge(self, x, f, what):
        ctx = self._ctx
        ctx.count("register_events")
        if not is_perm(x, self._n):
            ctx.violation(f"{self._alg}-{what}-non-permutation",
                          f"{what}: x = {[int(v) for v in x]}", STATE["case"])
            raise Stop
        want = exact(self._m, x)
        if isinstance(f, bool) or int(f) != want:
            ctx.violation(f"{self._alg}-{what}-wrong-length",
                          f"{what}(x, {f}) but the tour has length {want}",
                          STATE["case"])
            raise Stop
        if self._alg == "ea" and self._last is not None and want > self._last:
            ctx.violation("ea-current-tour-got-longer",
                          f"{what}: {want} after {self._last}", STATE["case"])
            raise Stop
        self._last = want

    def create(self):
        # moptipy documents the contents of a freshly created point as
        # UNDEFINED ("may not pass validate"); Permutations happens to return
        # 0..n-1. Every other run hands out arbitrary contents instead.
        x = self._p.create()
        if STATE.get("poison_create"):
            x[:] = 0 if self._n % 2 else self._n - 1
            self._ctx.count("created_points_with_arbitrary_contents")
        return x

    def evaluate(self, x):
        f = self._p.evaluate(x)
        self._judge(x, f, "evaluate")
        return f

    def register(self, x, f):
        self._judge(x, f, "register")
        return self._p.register(x, f)


def gen_sym(rng, n):
    kind = int(rng.integers(8))
    hi = int(rng.choice([1, 2, 5, 100, 10 ** 4, 10 ** 9, 3 * 10 ** 9,
                         10 ** 12]))
    m = [[0] * n for _ in range(n)]
    if kind == 5:
        # row maxima so that ub sits near an int8 / int16 edge
        edge = int(rng.choice([127, 32767]))
        hi = max(1, edge // n)
    for i in range(n):
        for j in range(i):
            if kind == 1:
                v = int(rng.choice([1, hi]))
            elif kind == 2:
                v = int(rng.integers(0, hi + 1)) if rng.integers(3) else 0
            elif kind == 3:
                v = abs(i - j)
            else:
                v = int(rng.integers(1, hi + 1))
            m[i][j] = m[j][i] = v
    if kind in (6, 7) and n >= 3:
        # "big-M" edges: one or two forbidden edges far above 2^31 / 2^32
        for _ in range(int(rng.integers(1, 3))):
            i, j = (int(v) for v in rng.choice(n, 2, replace=False))
            m[i][j] = m[j][i] = int(rng.choice([2 ** 31, 3 * 10 ** 9,
                                                2 ** 32 + 5, 10 ** 11]))
    for i in range(n):
        if max(m[i]) <= 0:
            j = (i + 1) % n
            m[i][j] = m[j][i] = 1
    return m


def make_alg(kind, inst):
    from moptipyapps.tsp.ea1p1_revn import TSPEA1p1revn
    from moptipyapps.tsp.fea1p1_revn import TSPFEA1p1revn
    return TSPEA1p1revn(inst) if kind == "ea" else TSPFEA1p1revn(inst)


LAST_BY_NAME: dict = {}
RUNS = [0]


def run_one(ctx, m, name, alg_kind, seed, fes, own_name=None, prev=None,
            poison=None):
    from moptipy.api.algorithm import Algorithm
    from moptipy.api.execution import Execution
    from moptipy.spaces.permutations import Permutations

    from moptipyapps.tsp.instance import Instance
    from moptipyapps.tsp.tour_length import TourLength
    install_wrappers()
    n = len(m)
    if name is None:
        if own_name is None:
            own_name = "v" + format(abs(hash(str(m))) % (1 << 30), "x")
        # users name their instances; two different instances may carry the
        # same name in one process: the earlier one is part of the history
        key = (own_name, alg_kind)
        if prev is None:
            prev = LAST_BY_NAME.get(key)
        if prev is not None and prev != m:
            ctx.count("same_name_sibling_histories")
        LAST_BY_NAME[key] = m
        inst = Instance(own_name, 0, np.array(m, np.int64))
    else:
        inst = Instance.from_resource(name)
    inner = make_alg(alg_kind, inst)
    case = {"kind": "run", "matrix": m if name is None else None,
            "name": name, "alg": alg_kind, "seed": seed, "fes": fes,
            "own_name": own_name, "prev_same_name": prev
            if prev is not None and prev != m else None}
    RUNS[0] += 1
    case["poison_create"] = bool(RUNS[0] % 2 == 0 if poison is None
                                 else poison)
    STATE.update(ctx=ctx, m=m, case=case, accepted=0,
                 ub=int(inst.tour_length_upper_bound),
                 poison_create=case["poison_create"])

    class Wrap(Algorithm):
        def solve(self, process):
            try:
                inner.solve(Proxy(process, ctx, m, n, alg_kind))
            except Stop:
                pass

        def __str__(self):
            return str(inner)

        def log_parameters_to(self, logger):
            inner.log_parameters_to(logger)

    ex = Execution()
    ex.set_solution_space(Permutations.standard(n))
    ex.set_objective(TourLength(inst))
    ex.set_algorithm(Wrap())
    ex.set_max_fes(fes)
    ex.set_rand_seed(seed)
    ctx.case()
    ctx.count("runs")
    ctx.count(f"runs[{alg_kind}]")
    if max(max(r) for r in m) >= 2 ** 31:
        ctx.count("runs_with_entries_above_2^31")
    ctx.count(f"dtype[{inst.dtype}]")
    with ex.execute() as p:
        bf = p.get_best_f()
        bx = p.create()
        p.get_copy_of_best_x(bx)
        if not is_perm(bx, n) or exact(m, bx) != bf:
            ctx.violation(f"{alg_kind}-final-best-inconsistent",
                          f"best f {bf} vs exact {exact(m, bx)}", case)
    if STATE["accepted"] >= 10:
        ctx.nontrivial(m if name is None else name, alg_kind, seed, fes)
    return STATE["accepted"]


def direct_all_ij(ctx, m):
    """Every admissible (i, j) from several start tours, kernels directly."""
    import moptipyapps.tsp.ea1p1_revn as ea
    import moptipyapps.tsp.fea1p1_revn as fea

    from moptipyapps.tsp.instance import Instance
    install_wrappers()
    n = len(m)
    inst = Instance("d" + format(abs(hash(str(m))) % (1 << 30), "x"), 0,
                    np.array(m, np.int64))
    ub = int(inst.tour_length_upper_bound)
    rng = ctx.rng
    STATE.update(ctx=ctx, m=m, ub=ub, accepted=0,
                 case={"kind": "direct", "matrix": m})
    starts = [list(range(n)), list(range(n))[::-1]] + [
        [int(v) for v in rng.permutation(n)] for _ in range(4)]
    from moptipy.spaces.permutations import Permutations
    sp = Permutations.standard(n)
    try:
        for st in starts:
            for i in range(n - 1):
                for j in range(i + 1, n - 1):
                    if i == 0 and j == n - 2:
                        continue
                    x = sp.create()
                    x[:] = st
                    y = exact(m, st)
                    ctx.case()
                    ea.rev_if_not_worse(i, j, n, inst, x, y)
                    if ub <= 4_000_000:   # the table needs ub+1 entries
                        x[:] = st
                        h = np.zeros(ub + 1, np.int64)
                        fea.rev_if_h_not_worse(i, j, n, inst, h, x, y)
    except Stop:
        return
    ctx.count("direct_all_ij_instances")
    ctx.mark_exhaustive("every admissible (i, j) on 6 start tours for each "
                        "direct-drive instance with n <= 8")


def direct_big(ctx, rng):
    """The move kernels on tours of 2^11 / 2^12 cities (long segments),
    driven directly on a numpy-built symmetric matrix; exact lengths by
    numpy."""
    import moptipyapps.tsp.ea1p1_revn as ea
    import moptipyapps.tsp.fea1p1_revn as fea
    k_ea = getattr(ea, "_verif_orig", None) or ea.rev_if_not_worse
    k_fea = getattr(fea, "_verif_orig", None) or fea.rev_if_h_not_worse
    n = int(rng.choice([2049, 2051, 2100] + (
        [4097, 4100] if ctx.tier == "thorough" else [])))
    a = rng.integers(1, 40, (n, n), dtype=np.int64)
    m = np.triu(a, 1)
    m = m + m.T
    ub = int(m.max(axis=1).sum())

    def length(x):
        xi = x.astype(np.int64)
        return int(m[np.roll(xi, 1), xi].sum())

    x = rng.permutation(n).astype(np.int64)
    y = length(x)
    h = np.zeros(ub + 1, np.int64)
    for t in range(60):
        if t % 3 == 0:
            ln = int(rng.choice([2047, 2048, 2049, 2050, n - 3]))
            ln = min(ln, n - 3)
            i = int(rng.integers(0, n - 1 - ln))
            j = i + ln
        else:
            i, j = sorted(int(v) for v in rng.choice(n - 1, 2, replace=False))
            if i == 0 and j == n - 2:
                continue
        before = x.copy()
        fea_turn = t % 2 == 1
        ctx.case()
        ctx.count("big_direct_moves")
        r = k_fea(i, j, n, m, h, x, y) if fea_turn else k_ea(i, j, n, m, x, y)
        changed = not np.array_equal(before, x)
        if changed:
            want = before.copy()
            want[i:j + 1] = want[i:j + 1][::-1]
            ctx.count("big_direct_moves_accepted")
            if j - i >= 2047:
                ctx.count("big_direct_long_segments_accepted")
            if not np.array_equal(want, x):
                ctx.count("moves_not_the_literal_segment_reversal")
            if sorted(x.tolist()) != list(range(n)):
                ctx.violation(
                    f"{'fea' if fea_turn else 'ea'}-x-not-a-permutation",
                    f"n={n}, move ({i},{j}): the array is no permutation "
                    f"any more", ctx.shard_replay_case(what="direct_big"))
                return
        ln_now = length(x)
        if int(r) != ln_now:
            ctx.violation(
                f"{'fea' if fea_turn else 'ea'}-kernel-length-drift",
                f"n={n}, move ({i},{j}): kernel returned {int(r)}, the tour "
                f"has length {ln_now}",
                ctx.shard_replay_case(what="direct_big"))
            return
        y = int(r)


SHIPPED_SMALL = ("burma14", "ulysses16", "gr17", "gr21", "ulysses22", "gr24",
                 "fri26", "bayg29", "bays29")


def run_shard(ctx, args):
    rng = ctx.rng
    direct_big(ctx, rng)
    for it in range(args["n"]):
        mode = it % 10
        if mode == 0:
            n = int(rng.integers(4, 9))
            direct_all_ij(ctx, gen_sym(rng, n))
            continue
        if mode == 1:
            name = str(rng.choice(SHIPPED_SMALL))
            from moptipyapps.tsp.instance import Instance
            inst = Instance.from_resource(name)
            m = [[int(v) for v in row] for row in np.asarray(inst)]
        elif mode == 2:
            name = None
            m = gen_sym(rng, int(rng.integers(2, 4)))     # n = 2, 3
        else:
            name = None
            m = gen_sym(rng, int(rng.integers(4, 31)))
        ub_m = sum(max(r) for r in m)
        for alg in ("ea", "fea"):
            if alg == "fea" and ub_m > 4_000_000:
                # the FEA's table needs upper-bound+1 entries of memory
                ctx.count("fea_skipped_table_too_large")
                continue
            seed = int(rng.integers(0, 1 << 62))
            if len(m) <= 3:
                fes = 1      # no move exists; more FEs would never be used
            else:
                fes = int(rng.choice([1, 2, 17, 256, 1000, 5000]))
            acc = run_one(ctx, m, name, alg, seed, fes,
                          own_name=(f"rnd{len(m)}" if it % 2 else None))
            if it % 30 == 3 and alg == "fea":
                ctx.sample({"n": len(m), "instance": name or m[:3],
                            "alg": alg, "seed": seed, "fes": fes,
                            "accepted_moves": acc})


def replay(ctx, case):
    if case["kind"] == "direct":
        direct_all_ij(ctx, case["matrix"])
        return
    m = case["matrix"]
    if m is None:
        from moptipyapps.tsp.instance import Instance
        m = [[int(v) for v in row] for row in
             np.asarray(Instance.from_resource(case["name"]))]
    prev = case.get("prev_same_name")
    if prev is not None:
        # the sibling that ran before under the same name
        run_one(ctx, prev, None, case["alg"], case["seed"], min(
            case["fes"], 50), own_name=case.get("own_name"))
    run_one(ctx, m, case["name"], case["alg"], case["seed"], case["fes"],
            own_name=case.get("own_name"), prev=prev,
            poison=case.get("poison_create"))
