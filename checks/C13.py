"""C13 - compiled kernels never access memory outside their arrays."""
from __future__ import annotations

import importlib
import traceback

import numpy as np

from vlib.monitors import indexspy as isp
from vlib.oracles import ttp as ot
from vlib.workloads import binpack as wb

PID = "C13"
RULE = ("three detectors over one corpus: engine bc (the shipped kernels "
        "recompiled with NUMBA_BOUNDSCHECK=1; any IndexError = violation) "
        "runs reduced slices of the workloads of C01, C02, C05-C09, C14, C15, "
        "C20 (and C10/C16 controllers/systems) through the public objects "
        "plus an extreme corpus; engine py (NUMBA_DISABLE_JIT=1) calls every "
        "kernel directly on IndexSpy arrays that record, per kernel and "
        "array, the extreme indices seen against the size; thorough adds "
        "valgrind memcheck on the shipped unchecked machine code. Extreme "
        "corpus: one-item / one-bin instances, every item its own bin, "
        "n_items at the int8 edge, last team/city/bin index, n = 2 "
        "teams/cities, plans in which a team meets itself or full of +-n, "
        "permutations of length 1 and 2, FEA with the tour at the upper "
        "bound, packings with bin id n_items. non-trivial = distinct "
        "(kernel, input class) pairs executed under bc and py")
LEVEL_ASSUMPTIONS = [
    "numba's global bounds checking (NUMBA_BOUNDSCHECK=1) instruments every "
    "array index of the recompiled kernels; each engine has its own cache "
    "directory so that unchecked code is never reused",
    "red-zone/bounds tools see only what the workload reaches"]

BC_SLICES = [
    ("C01", {"n": 60}), ("C14", {"n": 30}), ("C02", {"n": 30}),
    ("C03", {"n": 150}), ("C05", {"n": 120}), ("C06", {"n": 20}),
    ("C07", {"mode": "random", "n": 800}),
    ("C07", {"mode": "exhaustive", "cfg": [2, 2, 3, 2, 3, 1, 6]}),
    ("C08", {"mode": "random", "n": 300}), ("C09", {"n": 200}),
    ("C15", {"mode": "decode", "n": 2500, "part": 0, "parts": 1}),
    ("C20", {"mode": "inst", "n": 200}),
    ("C20", {"mode": "swap", "maxlen": 5}),
]


def REQUIRED(tier):  # noqa: N802
    return {"bc_slices_completed": len(bc_slices()),
            "extreme_calls[bc]": 200, "extreme_calls[py]": 200,
            "py_spy_accesses": 20000, "kernels_seen[py]": 20,
            "suite_runs": 1 if tier == "quick" else 5,
            "suite_tests_passed": 10}


def bc_slices():
    sl = list(BC_SLICES)
    for extra in ("C16", "C10"):
        try:
            importlib.import_module(f"checks.{extra}")
            sl.append((extra, {"c13_slice": True, "n": 40, "archs": 3}))
        except ImportError:
            pass
    return sl


def plan(tier: str, seed: int):
    mult = 1 if tier == "quick" else 12
    shards = []
    for i, (pid, args) in enumerate(bc_slices()):
        a = dict(args)
        if "n" in a and mult > 1 and a.get("mode") != "exhaustive":
            a["n"] = a["n"] * mult
        shards.append({"name": f"bc-{pid}-{i}", "engine": "bc",
                       "args": {"mode": "slice", "pid": pid, "args": a},
                       "timeout": 3000})
    shards.append({"name": "bc-extreme", "engine": "bc",
                   "args": {"mode": "extreme", "rounds": 3 * mult},
                   "timeout": 3000})
    for i in range(2 if tier == "quick" else 8):
        shards.append({"name": f"py-extreme-{i}", "engine": "py",
                       "args": {"mode": "extreme", "rounds": 1 * mult},
                       "timeout": 3000})
    # the repository's own tests driven through the bounds-checked kernels
    sets = [["tests/ttp", "tests/binpacking2d/encodings",
             "tests/binpacking2d/test_binpacking2d_packing_space.py",
             "tests/tsp/test_tour_length.py"]]
    if tier == "thorough":
        sets += [["tests/binpacking2d/objectives", "tests/qap"],
                 ["tests/tsp/test_ea1p1_revn.py",
                  "tests/tsp/test_fea1p1_revn.py"],
                 ["tests/dynamic_control/test_controllers.py",
                  "tests/dynamic_control/test_systems.py",
                  "tests/dynamic_control/test_ode.py",
                  "tests/dynamic_control/test_objective.py"],
                 ["tests/binpacking2d/instgen"]]
    for i, t in enumerate(sets):
        shards.append({"name": f"bc-suite-{i}", "engine": "bc",
                       "args": {"mode": "suite", "tests": t, "domains": [],
                                "rounds": 1, "oob": True},
                       "timeout": 3300})
    if tier == "thorough":
        shards.append({"name": "vg", "engine": "jit",
                       "args": {"mode": "valgrind"}, "timeout": 3400})
    return shards


class FilterCtx:
    """Ctx proxy for borrowed workloads: only memory findings are C13's."""

    def __init__(self, ctx, origin):
        object.__setattr__(self, "_ctx", ctx)
        object.__setattr__(self, "_origin", origin)

    def __getattr__(self, k):
        return getattr(self._ctx, k)

    def __setattr__(self, k, v):
        setattr(self._ctx, k, v)

    def violation(self, mech, what, case):
        if "IndexError" in mech or mech.startswith(
                ("process-crash", "out-of-bounds",
                 "fea-table-address-out-of-range")):
            self._ctx.violation(
                f"out-of-bounds:{self._origin}:{mech}"[:150], what,
                {"kind": "borrowed", "pid": self._origin, "case": case})
        else:
            self._ctx.count(f"functional_mismatch_under_{self._ctx.engine}")
            self._ctx.note(f"{self._origin} oracle mismatch under engine "
                           f"{self._ctx.engine}: {mech}: {what[:200]}")

    def nontrivial(self, *a):
        pass

    def nontrivial_hash(self, h):
        pass

    def sample(self, obj, limit=3):
        pass

    def inconclusive_because(self, why):
        self._ctx.note(f"{self._origin}: {why[:200]}")


def is_oob(e: BaseException) -> bool:
    seen = set()
    while e is not None and id(e) not in seen:
        seen.add(id(e))
        if isinstance(e, IndexError):
            return True
        e = e.__cause__ or e.__context__
    return False


def run_slice(ctx, pid, args):
    mod = importlib.import_module(f"checks.{pid}")
    sub = FilterCtx(ctx, pid)
    try:
        mod.run_shard(sub, args)
    except BaseException as e:  # noqa
        tb = traceback.format_exc()
        if is_oob(e):
            ctx.violation(
                f"out-of-bounds:IndexError-in-{pid}-workload",
                f"IndexError under NUMBA_BOUNDSCHECK=1 while running the "
                f"{pid} workload slice:\n" + "\n".join(tb.splitlines()[-14:]),
                {"kind": "slice", "pid": pid, "args": args})
            return
        raise
    ctx.count("bc_slices_completed")
    ctx.nontrivial("slice", pid, repr(sorted(args.items())), ctx.engine)


# -- the extreme corpus: direct kernel calls ---------------------------------
def _priv(obj, cls, name, fallback):
    v = getattr(obj, f"_{cls}__{name}", None)
    return fallback() if v is None else v


#: elements of guard zone on either side of a guarded array
GUARD = 64


def _same_result(a, b) -> bool:
    if isinstance(a, np.ndarray) or isinstance(b, np.ndarray):
        return bool(np.array_equal(a, b, equal_nan=(
            getattr(a, "dtype", np.dtype(int)).kind == "f")))
    if isinstance(a, float) and isinstance(b, float):
        return a == b or (a != a and b != b)
    return a == b


class Runner:
    """Drives one kernel call.

    Engine `py`: the arrays are IndexSpy views (every subscript is judged).
    Other engines: every plain contiguous array handed over through
    :meth:`w` is placed between two guard zones; the call is made twice with
    the zones filled with 0 and then with 1. A guard zone that changed is a
    write outside the array; a return value or final array content that
    differs between the two runs is a read outside the array that reached
    the result (this also sees accesses that numba's bounds checking does
    not, e.g. through `.flat`)."""

    def __init__(self, ctx):
        self.ctx = ctx
        self.py = ctx.engine == "py"
        self.pattern = None
        self.guards: list = []

    def w(self, a, label):
        if self.py:
            return isp.spy(a, label)
        if self.pattern is None or not isinstance(a, np.ndarray) \
                or a.size == 0 or a.dtype.kind not in "iuf" \
                or not a.flags.c_contiguous:
            return a
        if type(a) is not np.ndarray and label != "dist":
            return a
        buf = np.full(a.size + 2 * GUARD, self.pattern, a.dtype)
        view = buf[GUARD:GUARD + a.size].reshape(a.shape)
        view[...] = a
        self.guards.append((a, view, buf, label))
        return view

    def _guarded(self, kernel, input_class, fn):
        """Run fn with guard zones 0 and 1; -> False if fn handed nothing
        over through w() (it was run once, unguarded, then), else True."""
        ctx = self.ctx
        outs = []
        for pat in (0, 1):
            self.pattern, self.guards = pat, []
            try:
                res = fn()
            finally:
                self.pattern = None
            guards, self.guards = self.guards, []
            if not guards:
                return False        # nothing was handed over through w()
            ctx.count("guard_zone_calls")
            for _orig, _view, buf, label in guards:
                if (buf[:GUARD] != pat).any() or (buf[-GUARD:] != pat).any():
                    ctx.violation(
                        f"out-of-bounds:{kernel}",
                        f"{kernel} ({input_class}) changed the guard zone "
                        f"around its argument {label!r} (engine "
                        f"{ctx.engine})",
                        {"kind": "extreme", "kernel": kernel,
                         "input_class": input_class})
                    return True
            outs.append((res, [(g[3], g[1].copy()) for g in guards], guards))
        (r0, f0, _g0), (r1, f1, g1) = outs
        differs = None
        if not _same_result(r0, r1):
            differs = f"returns {r0!r} / {r1!r}"
        elif len(f0) != len(f1):
            differs = "hands over another number of arrays"
        else:
            for (la, a), (_lb, b) in zip(f0, f1):
                if not _same_result(a, b):
                    differs = f"leaves other contents in {la!r}"
                    break
        if differs:
            ctx.violation(
                f"out-of-bounds:{kernel}",
                f"{kernel} ({input_class}) {differs[:200]} depending on "
                f"whether the memory next to its arrays holds 0 or 1 "
                f"(engine {ctx.engine}): it reads outside an array",
                {"kind": "extreme", "kernel": kernel,
                 "input_class": input_class})
            return True
        for orig, view, _buf, label in g1:
            if orig.flags.writeable and type(orig) is np.ndarray:
                np.copyto(orig, view)
        return True

    def call(self, kernel, input_class, fn, public=None):
        ctx = self.ctx
        isp.kernel(kernel)
        ctx.case()
        ctx.count(f"extreme_calls[{ctx.engine}]")
        ctx.count(f"kernel[{kernel}]")
        try:
            try:
                if self.py:
                    fn()
                else:
                    self._guarded(kernel, input_class, fn)
            except TypeError as e:
                # a private kernel called with the argument list it has on
                # the pinned tree: if another tree gives it another private
                # signature that is not this property's business - drive the
                # public entry point instead
                msg = str(e)
                if not any(t in msg for t in (
                        "positional argument", "too many arguments",
                        "not enough arguments", "missing", "takes ")):
                    raise
                ctx.count("private_kernel_signature_differs")
                ctx.note(f"{kernel}: private signature differs ({msg[:80]})")
                if public is None:
                    return
                public()
        except BaseException as e:  # noqa
            if is_oob(e):
                tb = traceback.format_exc()
                ctx.violation(
                    f"out-of-bounds:{kernel}",
                    f"{kernel} ({input_class}) indexed outside an array "
                    f"under engine {ctx.engine}: {e}\n"
                    + "\n".join(tb.splitlines()[-8:]),
                    {"kind": "extreme", "kernel": kernel,
                     "input_class": input_class})
                return
            raise
        ctx.nontrivial(kernel, input_class, ctx.engine)


def binpack_corpus(r: Runner, rng):
    import moptipyapps.binpacking2d.encodings.ibl_encoding_1 as e1
    import moptipyapps.binpacking2d.encodings.ibl_encoding_2 as e2
    from moptipyapps.binpacking2d.objectives import (
        bin_count_and_empty as oe,
    )
    from moptipyapps.binpacking2d.objectives import (
        bin_count_and_last_empty as ole,
    )
    from moptipyapps.binpacking2d.objectives import (
        bin_count_and_last_skyline as olk,
    )
    from moptipyapps.binpacking2d.objectives import (
        bin_count_and_last_small as ols,
    )
    from moptipyapps.binpacking2d.objectives import (
        bin_count_and_lowest_skyline as owk,
    )
    from moptipyapps.binpacking2d.objectives import (
        bin_count_and_small as osm,
    )
    from moptipyapps.binpacking2d.packing import Packing
    descs = [
        ("one-item", {"name": "a", "W": 5, "H": 4, "items": [[5, 4, 1]]}),
        ("one-item-rot", {"name": "a", "W": 5, "H": 4, "items": [[4, 5, 1]]}),
        ("one-bin", {"name": "a", "W": 10, "H": 10,
                     "items": [[2, 3, 4], [1, 1, 5]]}),
        ("all-own-bin", {"name": "a", "W": 7, "H": 3,
                         "items": [[7, 3, 6], [3, 7, 5]]}),
        ("own-bin-int8-edge", {"name": "a", "W": 2, "H": 2,
                               "items": [[2, 2, 126]]}),
        ("own-bin-127", {"name": "a", "W": 1, "H": 1,
                         "items": [[1, 1, 127]]}),
        ("unit-1x1", {"name": "a", "W": 1, "H": 1, "items": [[1, 1, 1]]}),
    ]
    for _ in range(4):
        d = wb.gen_instance(rng, str(rng.choice(
            ["tiny", "itembin", "forcedrot", "dtype", "general"])))
        descs.append((d["cls"], d))
    for cls, desc in descs:
        try:
            inst = wb.make_real(desc)
        except ValueError:
            continue
        W, H = int(inst.bin_width), int(inst.bin_height)
        y = Packing(inst)
        y.fill(0)
        for perm_kind in ("sorted", "random", "negated"):
            perm = wb.gen_perm(rng, desc, perm_kind)
            x = wb.x_array(perm, inst)
            r.call("ibl1._decode", cls, lambda: setattr(y, "n_bins", e1._decode(
                r.w(x, "x"), r.w(y, "y"), r.w(inst, "instance"), W, H)),
                public=lambda: e1.ImprovedBottomLeftEncoding1(inst).decode(
                    r.w(x, "x"), r.w(y, "y")))
            enc2 = e2.ImprovedBottomLeftEncoding2(inst)
            bs = _priv(enc2, "ImprovedBottomLeftEncoding2", "bin_starts",
                       lambda: np.empty(inst.n_items, inst.dtype))
            be = _priv(enc2, "ImprovedBottomLeftEncoding2", "bin_ends",
                       lambda: np.empty(inst.n_items, inst.dtype))
            r.call("ibl2._decode", cls, lambda: setattr(y, "n_bins", e2._decode(
                r.w(x, "x"), r.w(y, "y"), r.w(inst, "instance"), W, H,
                r.w(bs, "bin_starts"), r.w(be, "bin_ends"))),
                public=lambda: enc2.decode(r.w(x, "x"), r.w(y, "y")))
            # objectives on what was decoded and on "every item its own bin"
            packs = [("decoded", np.array(y))]
            own = np.array(y)
            for i in range(own.shape[0]):
                wi, hi = own[i, 4] - own[i, 2], own[i, 5] - own[i, 3]
                own[i, 1] = i + 1
                own[i, 2:] = (0, 0, wi, hi)
            packs.append(("bin-id=n_items", own))
            for ptag, arr in packs:
                yy = Packing(inst)
                yy[:, :] = arr
                yy.n_bins = int(arr[:, 1].max())
                oe_o = oe.BinCountAndEmpty(inst)
                t1 = _priv(oe_o, "BinCountAndEmpty", "temp",
                           lambda: np.empty(inst.n_items, inst.dtype))
                osm_o = osm.BinCountAndSmall(inst)
                t2 = _priv(osm_o, "BinCountAndSmall", "temp",
                           lambda: np.empty(inst.n_items, int))
                c = f"{cls}/{ptag}"
                r.call("bin_count_and_empty", c, lambda: oe.bin_count_and_empty(
                    r.w(yy, "y"), r.w(t1, "temp")))
                r.call("bin_count_and_small", c, lambda: osm.bin_count_and_small(
                    r.w(yy, "y"), W * H, r.w(t2, "temp")))
                r.call("bin_count_and_last_empty", c,
                       lambda: ole.bin_count_and_last_empty(r.w(yy, "y")))
                r.call("bin_count_and_last_small", c,
                       lambda: ols.bin_count_and_last_small(r.w(yy, "y"),
                                                            W * H))
                r.call("bin_count_and_last_skyline", c,
                       lambda: olk.bin_count_and_last_skyline(
                           r.w(yy, "y"), W, H))
                r.call("bin_count_and_lowest_skyline", c,
                       lambda: owk.bin_count_and_lowest_skyline(
                           r.w(yy, "y"), W, H))


def ttp_corpus(r: Runner, rng):
    from checks import C07
    from moptipyapps.ttp.errors import Errors, count_errors
    from moptipyapps.ttp.game_encoding import (
        map_games,
        search_space_for_n_and_rounds,
    )
    from moptipyapps.ttp.game_plan import GamePlan
    from moptipyapps.ttp.game_plan_space import GamePlanSpace
    from moptipyapps.ttp.plan_length import GamePlanLength, game_plan_length
    for n in (2, 4, 6, 8):
        for rounds in (1, 2, 3):
            ll = rounds * n - 1
            cfg = (rounds, 1, min(3, ll), 1, min(3, ll), min(1, ll), ll)
            inst = C07.make_instance(n, cfg)
            D = (n - 1) * rounds
            eo = Errors(inst)
            t1, t2 = C07.temps(eo, n, D)
            lo = GamePlanLength(inst)
            plans = {
                "self-pairing-all": [[(a + 1) * (1 if (a + d) % 2 else -1)
                                      for a in range(n)] for d in range(D)],
                "self-pairing-last-team":
                    [[0] * (n - 1) + [n] for _ in range(D)],
                "self-pairing-last-team-away":
                    [[0] * (n - 1) + [-n] for _ in range(D)],
                "full-of-+n": [[n] * n for _ in range(D)],
                "full-of--n": [[-n] * n for _ in range(D)],
                "all-vs-team-1": [[1] * n for _ in range(D)],
                "byes": [[0] * n for _ in range(D)],
                "circle": ot.circle_method(n, rounds, True),
                "uniform": [[int(v) for v in rng.integers(-n, n + 1, n)]
                            for _ in range(D)],
            }
            for tag, p in plans.items():
                gp = GamePlan(inst)
                gp[:, :] = np.array(p)
                GamePlanSpace(inst).validate(gp)
                c = f"n={n},rounds={rounds},{tag}"
                r.call("count_errors", c, lambda: count_errors(
                    r.w(gp, "y"), cfg[1], cfg[2], cfg[3], cfg[4], cfg[5],
                    cfg[6], r.w(t1, "temp_1"), r.w(t2, "temp_2")))
                r.call("game_plan_length", c, lambda: game_plan_length(
                    r.w(gp, "y"), r.w(inst, "distances"), lo.bye_penalty))
                if not r.py:
                    r.call("Errors.evaluate", c, lambda: eo.evaluate(gp))
            sp = search_space_for_n_and_rounds(n, rounds) if (
                n, rounds) != (2, 1) else None
            if sp is not None:
                for kind in ("sorted", "reversed", "random"):
                    bp = np.array(sp.blueprint)
                    if kind == "reversed":
                        bp = bp[::-1].copy()
                    elif kind == "random":
                        rng.shuffle(bp)
                    gp = GamePlan(inst)
                    r.call("map_games", f"n={n},rounds={rounds},{kind}",
                           lambda: map_games(r.w(bp, "x"), r.w(gp, "y")))
    for n in (3, 5):      # odd n through the public function on plain arrays
        from moptipy.utils.nputils import int_range_to_dtype
        sp = search_space_for_n_and_rounds(n, 2)
        for days in (1, n, 2 * n):
            yy = np.empty((days, n), int_range_to_dtype(-n, n))
            bp = np.array(sp.blueprint)
            r.call("map_games", f"odd n={n},days={days}",
                   lambda: map_games(r.w(bp, "x"), r.w(yy, "y")))


def tsp_qap_corpus(r: Runner, rng):
    from checks import C05
    from moptipy.spaces.permutations import Permutations

    import moptipyapps.tsp.ea1p1_revn as ea
    import moptipyapps.tsp.fea1p1_revn as fea
    from moptipyapps.order1d.distances import swap_distance
    from moptipyapps.qap.instance import Instance as QInst
    from moptipyapps.qap.instance import trivial_bounds
    import moptipyapps.qap.objective as qobj
    _evaluate = getattr(qobj, "_evaluate", None)
    if _evaluate is None:
        # the private kernel has another name on this tree; the objective is
        # still driven under the bounds-checked engine by the C09 slice
        r.ctx.count("private_kernel_signature_differs")
        r.ctx.note("qap.objective._evaluate does not exist on this tree")

        def _evaluate(x, d, f):
            return None
    from moptipyapps.tsp.instance import Instance
    from moptipyapps.tsp.tour_length import tour_length
    ea_k = getattr(ea, "_verif_orig", ea.rev_if_not_worse)
    fea_k = getattr(fea, "_verif_orig", fea.rev_if_h_not_worse)
    for n in (2, 3, 4, 5, 8):
        # ring-upper: the identity tour attains the upper bound
        m = [[0 if i == j else 1 for j in range(n)] for i in range(n)]
        for i in range(n):
            m[i][(i + 1) % n] = m[(i + 1) % n][i] = 5
        if n == 2:
            m = [[0, 5], [5, 0]]
        inst = Instance(f"x{n}", 0, np.array(m))
        sp = Permutations.standard(n)
        ub = int(inst.tour_length_upper_bound)
        for t in (list(range(n)), list(range(n))[::-1],
                  [int(v) for v in rng.permutation(n)]):
            x = sp.create()
            x[:] = t
            r.call("tour_length", f"n={n}", lambda: tour_length(
                r.w(inst, "instance"), r.w(x, "x")))
            y0 = C05 and sum(m[t[k - 1]][t[k]] for k in range(n))
            for i in range(n - 1):
                # (segments ending at the last position included: the
                # kernels wrap the successor index)
                for j in range(i + 1, n):
                    if i == 0 and j >= n - 2:
                        continue
                    x[:] = t
                    r.call("rev_if_not_worse", f"n={n},i={i},j={j}",
                           lambda: ea_k(i, j, n, r.w(inst, "dist"),
                                        r.w(x, "x"), y0))
                    x[:] = t
                    h = np.zeros(ub + 1, np.int64)
                    r.call("rev_if_h_not_worse",
                           f"n={n},i={i},j={j},y={'ub' if y0 == ub else 'lt'}",
                           lambda: fea_k(i, j, n, r.w(inst, "dist"),
                                         r.w(h, "h"), r.w(x, "x"), y0))
    if not r.py:
        # the real FEA (its own table allocation) on instances where a tour
        # attains the upper tour-length bound
        from moptipy.api.execution import Execution

        from moptipyapps.tsp.fea1p1_revn import TSPFEA1p1revn
        from moptipyapps.tsp.tour_length import TourLength
        for n in (4, 5, 6, 7):
            m = [[0 if i == j else 1 for j in range(n)] for i in range(n)]
            for i in range(n):
                m[i][(i + 1) % n] = m[(i + 1) % n][i] = 2
            inst = Instance(f"ring{n}", 0, np.array(m))

            def run_fea(inst=inst, n=n):
                for seed in range(6):
                    ex = (Execution().set_solution_space(
                        Permutations.standard(n)).set_algorithm(
                        TSPFEA1p1revn(inst)).set_objective(TourLength(inst))
                        .set_max_fes(300).set_rand_seed(seed))
                    with ex.execute():
                        pass
            r.call("TSPFEA1p1revn.solve", f"ring n={n}, tours at the upper "
                   "bound", run_fea)
    for n in (1, 2, 3, 7):
        F = rng.integers(0, 9, (n, n))
        Dm = rng.integers(0, 9, (n, n))
        qi = QInst(Dm, F)
        p = np.array(rng.permutation(n))
        r.call("qap._evaluate", f"n={n}", lambda: _evaluate(
            r.w(p, "x"), r.w(qi.distances, "distances"),
            r.w(qi.flows, "flows")))
        if not r.py:
            r.call("qap.trivial_bounds", f"n={n}",
                   lambda: trivial_bounds(Dm, F))
    for n in (1, 2, 3, 6):
        a = np.array(rng.permutation(n))
        b = np.array(rng.permutation(n))
        r.call("swap_distance", f"len={n}", lambda: swap_distance(
            r.w(a, "p1"), r.w(b, "p2")))


def extreme(ctx, rounds):
    r = Runner(ctx)
    rng = ctx.rng
    for _ in range(rounds):
        binpack_corpus(r, rng)
        ttp_corpus(r, rng)
        tsp_qap_corpus(r, rng)
        try:
            c16 = importlib.import_module("checks.C16")
            c16.c13_corpus(r, rng)
        except (ImportError, AttributeError):
            ctx.count("dynamic_control_corpus_not_available")
    if r.py:
        summ = isp.summary()
        ctx.extra["index_extremes"] = summ
        ctx.count("py_spy_accesses", sum(v["accesses"] for v in summ.values()))
        ctx.count("kernels_seen[py]", len({k.split(":")[0] for k in summ}))
        ctx.count("negative_wraparound_indices",
                  sum(v["negative"] for v in summ.values()))
        ctx.count("arrays_whose_last_index_was_hit",
                  sum(1 for v in summ.values() if v["hit_last"]))
        neg = sorted(k for k, v in summ.items() if v["negative"])
        ctx.note("arrays indexed with negative (wrap-around) indices: "
                 + ", ".join(neg))
        ctx.sample({"engine": "py", "index_extremes_sample":
                    dict(list(summ.items())[:6])})
    else:
        ctx.sample({"engine": ctx.engine, "kernels": sorted(
            k for k in ctx.counters if k.startswith("kernel["))[:12]})


def valgrind(ctx):
    """The shipped unchecked machine code under memcheck (thorough)."""
    import os
    import re
    import subprocess
    import sys
    import tempfile
    home = os.environ.get("VERIF_HOME", "/verif")
    log = tempfile.mktemp(prefix="vg-", suffix=".log",
                          dir=os.path.join(home, ".work"))
    env = dict(os.environ)
    env["PYTHONMALLOC"] = "malloc"
    env["C13_VG_CHILD"] = "1"
    # warm the jit cache natively first (same cache dir, engine jit)
    subprocess.run([sys.executable, "-m", "checks.C13", "vgchild"], env=env,
                   cwd=home, timeout=1500, check=False,
                   stdout=subprocess.DEVNULL, stderr=subprocess.DEVNULL)
    cmd = ["valgrind", "--tool=memcheck", "--error-limit=no",
           "--undef-value-errors=no", f"--log-file={log}",
           "--num-callers=12", sys.executable, "-m", "checks.C13", "vgchild"]
    p = subprocess.run(cmd, env=env, cwd=home, timeout=3000, check=False,
                       stdout=subprocess.PIPE, stderr=subprocess.STDOUT,
                       text=True)
    ctx.case()
    txt = open(log, errors="replace").read() if os.path.exists(log) else ""
    blocks = re.split(r"\n==\d+== \n", txt)
    bad = [b for b in blocks if re.search(r"Invalid (read|write)", b)]
    # JIT frames have no symbol: '???' ; keep blocks whose top frame is such
    jit = [b for b in bad if re.search(
        r"Invalid (read|write)[^\n]*\n==\d+==\s+at 0x[0-9A-F]+: \?\?\?", b)]
    ctx.count("valgrind_runs")
    ctx.count("valgrind_invalid_access_blocks", len(bad))
    ctx.count("valgrind_invalid_access_blocks_in_jit_code", len(jit))
    ctx.note(f"valgrind child rc={p.returncode}; log {len(txt)} bytes")
    if "VGCHILD-DONE" not in p.stdout:
        ctx.inconclusive_because("valgrind child did not finish: "
                                 + p.stdout[-600:])
    for b in jit[:2]:
        ctx.violation("out-of-bounds:valgrind-invalid-access-in-jit-code",
                      "memcheck: " + b[:1200],
                      {"kind": "valgrind"})
    try:
        os.remove(log)
    except OSError:
        pass


def run_shard(ctx, args):
    mode = args["mode"]
    if mode == "slice":
        run_slice(ctx, args["pid"], args["args"])
    elif mode == "extreme":
        extreme(ctx, args["rounds"])
    elif mode == "valgrind":
        valgrind(ctx)


def replay(ctx, case):
    k = case.get("kind")
    if k == "slice":
        run_slice(ctx, case["pid"], case["args"])
    elif k == "borrowed":
        mod = importlib.import_module(f"checks.{case['pid']}")
        sub = FilterCtx(ctx, case["pid"])
        try:
            mod.replay(sub, case["case"])
        except BaseException as e:  # noqa
            if is_oob(e):
                ctx.violation(f"out-of-bounds:IndexError-in-{case['pid']}-"
                              "workload", str(e), case)
            else:
                raise
    elif k == "valgrind":
        valgrind(ctx)
    else:
        extreme(ctx, 1)


if __name__ == "__main__":
    # child process of the valgrind shard: the extreme corpus, engine jit
    import sys

    from vlib.harness import Ctx
    c = Ctx("C13", "thorough", 1, 0, "vgchild", "jit")
    rr = Runner(c)
    g = np.random.default_rng(7)
    ttp_corpus(rr, g)
    tsp_qap_corpus(rr, g)
    binpack_corpus(rr, g)
    print("VGCHILD-DONE", c.evaluations, len(c.violations))
    sys.exit(0)
