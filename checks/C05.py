"""C05 - tour length is the cyclic edge sum within the instance bounds."""
from __future__ import annotations

import itertools

import numpy as np

PID = "C05"
RULE = ("square non-negative integer matrices, zero diagonal, a positive "
        "off-diagonal entry per row, n = 2..40: small / two-valued / with "
        "zeros / up to 10^12 entries / row maxima chosen so that the derived "
        "upper bound lands at 127/128, 32767/32768, 2^31-1/2^31 (+-1); "
        "symmetric, asymmetric and 'asymmetric in one corner entry'; "
        "'ring' matrices whose identity tour meets the lower or upper bound "
        "exactly; also with upper_bound_range_multiplier > 1 (the TTP path) "
        "and matrices handed over in int8..int64/uint dtypes; tours random / "
        "identity / reversed / bound-attaining and ALL permutations for "
        "n <= 6. Oracle: Python-int cyclic sum over the ORIGINAL matrix, "
        "entry-wise equality of the stored matrix, recomputed symmetry flag, "
        "lb <= len <= ub. non-trivial = distinct (matrix, tour) with n >= 3 "
        "and a non-constant matrix")
LEVEL_ASSUMPTIONS = ["oracle: sum of original Python ints along the cycle"]
REQUIRED = {"concurrent_tour_lengths": 2000, "suite_runs": 1, "contract_tour_length_evaluated": 5, "tour_evaluations": 3000, "asymmetric_instances": 100,
            "corner_asymmetric": 20, "dtype_boundary_instances": 50,
            "bound_attained_lower": 20, "bound_attained_upper": 20,
            "instances_all_perms": 20, "multiplier_instances": 30,
            "size_window_instances": 10, "big_kernel_tours": 6,
            "every_city_count_kernel_calls": 1200,
            "every_city_count_instances": 60,
            "instances_built_from_a_stale_instance_object": 20,
            "instances_named_like_a_shipped_one": 20,
            "instances_from_tsplib_text": 50,
            "input_layout[F]": 30, "input_layout[T-view]": 30,
            "input_layout[strided]": 30}


# the repository's own tests as a further workload, observed by the
# process-wide contracts of vlib/monitors (see vlib/suite.py)
SUITE_TESTS = ['tests/tsp/test_tour_length.py']
SUITE_DOMAINS = ['tsp']


SHIPPED_BY_N = {14: ["burma14"], 16: ["ulysses16"], 17: ["gr17", "br17"],
                21: ["gr21"], 22: ["ulysses22"], 24: ["gr24"],
                26: ["fri26"], 29: ["bayg29", "bays29"]}


def big_kernel(ctx, rng):
    """Tours of 2^11 / 2^12 cities through the length kernel (a plain
    matrix built by numpy; the Instance constructor is quadratic in pure
    Python and would take minutes at this size)."""
    from moptipyapps.tsp.tour_length import tour_length
    n = int(rng.choice([2047, 2048, 2049, 2051, 4096, 4099]))
    hi = int(rng.choice([9, 10 ** 6, 10 ** 12]))
    m = rng.integers(0, hi + 1, (n, n), dtype=np.int64)
    np.fill_diagonal(m, 0)
    for _ in range(3):
        x = rng.permutation(n).astype(np.int64 if rng.integers(2)
                                      else np.int16)
        ctx.case()
        ctx.count("big_kernel_tours")
        v = tour_length(m, x)
        xi = x.astype(np.int64)
        want = int(m[np.roll(xi, 1), xi].sum())
        if int(v) != want:
            ctx.violation("tour-length-differs",
                          f"tour_length on {n} cities = {v}, cyclic edge sum "
                          f"= {want}", ctx.shard_replay_case(what="big"))


def every_size(ctx, rng, part, parts):
    """EVERY city count, not only windows around powers of two: the kernel
    on plain matrices for 2..320 cities, whole instances (with their derived
    bounds) for this shard's share of 2..72."""
    from moptipyapps.tsp.tour_length import tour_length
    for n in range(2, 321):
        hi = int(rng.choice([3, 100, 10 ** 6]))
        m = rng.integers(0, hi + 1, (n, n), dtype=np.int64)
        np.fill_diagonal(m, 0)
        if n % 2:
            m = np.maximum(m, m.T)
        x = rng.permutation(n).astype(
            [np.int64, np.int16, np.uint16, np.int32][n % 4])
        ctx.case()
        ctx.count("every_city_count_kernel_calls")
        v = tour_length(m, x)
        xi = x.astype(np.int64)
        want = int(m[np.roll(xi, 1), xi].sum())
        if int(v) != want:
            ctx.violation("tour-length-differs",
                          f"tour_length on {n} cities = {v}, cyclic edge sum "
                          f"= {want}", {"kind": "inst", "matrix": m.tolist(),
                                        "mult": 1, "in_dtype": "int64",
                                        "layout": "C"})
            return
    for n in range(9 + part, 73, parts):
        m, tag = gen_matrix(rng, n)
        ctx.count("every_city_count_instances")
        one_instance(ctx, m, tag, 1, np.int64, False)


def plan(tier: str, seed: int):
    # plus a thread-stress shard (vlib/threads.py)
    return _plan_nothreads(tier, seed) + [
        {"name": "threads", "engine": "jit", "timeout": 3000,
         "args": {"mode": "threads", "n": 4 if tier == "quick" else 60}}]


def _plan_nothreads(tier: str, seed: int):
    rounds = 1 if tier == "quick" else 6
    return _plan(tier, seed) + [
        {"name": f"suite{i}", "engine": "jit", "timeout": 3000,
         "args": {"mode": "suite", "tests": SUITE_TESTS,
                  "domains": SUITE_DOMAINS, "rounds": rounds}}
        for i in range(1 if tier == "quick" else 4)]


def _plan(tier: str, seed: int):
    if tier == "quick":
        return [{"name": f"s{i}", "engine": "jit",
                 "args": {"n": 260, "part": i, "parts": 4},
                 "timeout": 900} for i in range(4)]
    return [{"name": f"s{i}", "engine": "jit",
             "args": {"n": 20000, "part": i % 2, "parts": 2},
             "timeout": 3400} for i in range(16)]


def gen_matrix(rng, n):
    kind = int(rng.integers(10))
    sym = bool(rng.integers(2))
    tag = "plain"
    hi = int(rng.choice([1, 2, 9, 100, 30000, 10 ** 6, 10 ** 7, 10 ** 9,
                         10 ** 12]))
    m = [[0] * n for _ in range(n)]

    def fill(f):
        for i in range(n):
            for j in range(n):
                if i == j or (sym and j < i):
                    continue
                v = f(i, j)
                m[i][j] = v
                if sym:
                    m[j][i] = v

    if kind == 0:
        fill(lambda i, j: int(rng.integers(1, hi + 1)))
    elif kind == 1:
        fill(lambda i, j: int(rng.choice([1, hi])))
        tag = "two-valued"
    elif kind == 2:
        fill(lambda i, j: int(rng.integers(0, hi + 1)) if rng.integers(3)
             else 0)
        tag = "zeros"
    elif kind in (3, 4):
        # derived upper bound (sum of row maxima) lands at a dtype edge
        edge = int(rng.choice([127, 32767, 2147483647]))
        target = edge + int(rng.integers(-1, 3))
        if target < n:
            target = n
        base = target // n
        rest = target - base * n
        rowmax = [base + (1 if i < rest else 0) for i in range(n)]
        if min(rowmax) < 1:
            rowmax = [max(1, v) for v in rowmax]
        sym = False
        for i in range(n):
            js = [j for j in range(n) if j != i]
            jm = js[int(rng.integers(len(js)))]
            for j in js:
                m[i][j] = rowmax[i] if j == jm else int(
                    rng.integers(0, rowmax[i] + 1))
        tag = f"ub-edge-{edge}"
    elif kind == 5:
        # ring: identity tour uses the nearest neighbour everywhere
        sym = False
        fill(lambda i, j: int(rng.integers(5, hi + 6)))
        for i in range(n):
            m[i][(i + 1) % n] = int(rng.integers(1, 5))
        if n == 2:
            pass
        tag = "ring-lower"
    elif kind == 6:
        sym = False
        fill(lambda i, j: int(rng.integers(1, hi + 1)))
        for i in range(n):
            m[i][(i + 1) % n] = hi + int(rng.integers(1, 5))
        tag = "ring-upper"
    elif kind == 7:
        sym = True
        fill(lambda i, j: int(rng.integers(1, hi + 1)))
        # asymmetric in exactly one corner entry
        if n >= 2:
            a, b = (0, n - 1) if rng.integers(2) else (n - 1, 0)
            m[a][b] += 1
            tag = "corner-asym"
    elif kind == 8:
        fill(lambda i, j: abs(i - j))
        tag = "line"
    else:
        fill(lambda i, j: int(rng.integers(hi // 2, hi + 1)) or 1)
    for i in range(n):
        if max(m[i][j] for j in range(n) if j != i) <= 0:
            j = (i + 1) % n
            m[i][j] = 1
            if sym and tag != "corner-asym":
                m[j][i] = 1
    return m, tag


def fits(m, dt):
    if np.issubdtype(dt, np.floating):
        # integer distances handed over in a float array (e.g. rounded
        # coordinates): every entry must be exactly representable
        lim = {np.float16: 2 ** 11, np.float32: 2 ** 24,
               np.float64: 2 ** 53}[dt]
        return max(max(r) for r in m) <= lim
    info = np.iinfo(dt)
    return info.min <= min(min(r) for r in m) and max(
        max(r) for r in m) <= info.max


STALE = [0]


def one_instance(ctx, m, tag, mult, in_dtype, all_perms, layout=None):
    from moptipy.spaces.permutations import Permutations

    from moptipyapps.tsp.instance import Instance
    from moptipyapps.tsp.tour_length import TourLength
    rng = ctx.rng
    n = len(m)
    case0 = {"kind": "inst", "matrix": m, "mult": mult,
             "in_dtype": str(np.dtype(in_dtype)), "layout": layout}
    arr = np.array(m, dtype=in_dtype)
    # the same matrix in another memory layout (the caller's business)
    layout = case0.get("layout")
    if layout is None:
        layout = str(rng.choice(["C", "C", "F", "T-view", "strided",
                                 "reversed"]))
        case0["layout"] = layout
    if layout == "F":
        arr = np.asfortranarray(arr)
    elif layout == "T-view":
        arr = np.ascontiguousarray(arr.T).T
    elif layout == "strided":
        big = np.zeros((2 * n, 3 * n), dtype=in_dtype)
        big[::2, 1::3] = arr
        arr = big[::2, 1::3]
    elif layout == "reversed":
        arr = np.ascontiguousarray(arr[::-1, ::-1])[::-1, ::-1]
    ctx.count(f"input_layout[{layout}]")
    ctx.case()
    # every other instance shares its name with others of the same size
    iname = f"rnd{n}" if rng.integers(2) else (
        "v" + format(int(rng.integers(1 << 30)), "x"))
    if n in SHIPPED_BY_N and rng.integers(2):
        # ... or carries the name of a shipped TSPLIB instance of that size
        # (tables of published optima are keyed by name)
        iname = str(rng.choice(SHIPPED_BY_N[n]))
        ctx.count("instances_named_like_a_shipped_one")
    STALE[0] += 1
    if STALE[0] % 6 == 0 and n >= 3 and layout == "C" \
            and np.dtype(in_dtype).kind == "i":
        # the matrix argument is itself an Instance - built for ANOTHER
        # matrix (other symmetry, larger entries) and then overwritten in
        # place with this one: what that object says about itself is stale
        mm = np.array(m, np.int64)
        other = np.maximum(mm, mm.T) * 2 + 1
        np.fill_diagonal(other, 0)
        if bool((mm == mm.T).all()):
            other[0, 1] += 3
        try:
            src = Instance(iname + "o", 0, other)
            if int(np.iinfo(src.dtype).max) >= int(mm.max()):
                src[:, :] = mm
                arr = src
                ctx.count("instances_built_from_a_stale_instance_object")
        except ValueError:
            pass
    inst = Instance(iname, 0, arr,
                    mult)
    ctx.count("instances")
    ctx.count(f"dtype[{inst.dtype}]")
    ctx.count(f"tag[{tag.split('-')[0]}]")
    if tag.startswith("ub-edge"):
        ctx.count("dtype_boundary_instances")
    if mult > 1:
        ctx.count("multiplier_instances")
    sym = all(m[i][j] == m[j][i] for i in range(n) for j in range(n))
    ctx.count("symmetric_instances" if sym else "asymmetric_instances")
    if tag == "corner-asym":
        ctx.count("corner_asymmetric")
    if bool(inst.is_symmetric) != sym or not isinstance(
            inst.is_symmetric, (bool, np.bool_)):
        ctx.violation("symmetry-flag", f"is_symmetric={inst.is_symmetric} "
                      f"but the matrix is {'symmetric' if sym else 'not'} "
                      f"({tag})", case0)
    stored = np.asarray(inst)
    if stored.shape != (n, n) or any(
            int(stored[i, j]) != m[i][j] for i in range(n) for j in range(n)):
        ctx.violation("stored-matrix-differs", "np.asarray(instance) != "
                      "given matrix", case0)
    if inst.n_cities != n:
        ctx.violation("n-cities", f"{inst.n_cities} != {n}", case0)
    obj = TourLength(inst)
    lb, ub = obj.lower_bound(), obj.upper_bound()
    space = Permutations.standard(n)
    tours = []
    if all_perms:
        tours = [list(p) for p in itertools.permutations(range(n))]
        ctx.count("instances_all_perms")
        ctx.mark_exhaustive("all permutations for every instance with n <= 6 "
                            "selected for enumeration")
    else:
        tours.append(list(range(n)))
        tours.append(list(range(n))[::-1])
        for _ in range(8):
            tours.append([int(v) for v in rng.permutation(n)])
        # greedy farthest / nearest tours push towards the bounds
        for far in (True, False):
            t = [0]
            left = set(range(1, n))
            while left:
                c = t[-1]
                nx = (max if far else min)(left, key=lambda j: m[c][j])
                t.append(nx)
                left.remove(nx)
            tours.append(t)
    nonconst = len({m[i][j] for i in range(n) for j in range(n)
                    if i != j}) > 1
    x = space.create()          # one point buffer, overwritten in place
    for t in tours:
        x[:] = t
        ctx.case()
        ctx.count("tour_evaluations")
        v = obj.evaluate(x)
        want = sum(m[t[k - 1]][t[k]] for k in range(n))
        case = dict(case0, kind="tour", tour=t)
        if t is tours[0] and STALE[0] % 4 == 1:
            from vlib.clones import judge_clones
            judge_clones(ctx, obj, lambda o: (o.evaluate(x), o.lower_bound(),
                                              o.upper_bound()),
                         (want, lb, ub), "tour-length", case)
        if v != want or isinstance(v, bool):
            ctx.violation("tour-length-differs",
                          f"TourLength = {v!r}, cyclic edge sum = {want} "
                          f"(n={n}, dtype {inst.dtype}, {tag})", case)
        if not lb <= want <= ub:
            ctx.violation("tour-outside-derived-bounds",
                          f"tour length {want} not in [{lb}, {ub}] "
                          f"(n={n}, {tag})", case)
        if want == lb:
            ctx.count("bound_attained_lower")
        if want == ub:
            ctx.count("bound_attained_upper")
        if n >= 3 and nonconst:
            ctx.nontrivial(m, t)
        ctx.seen_max("max_tour_length", want)
    # history: the caller keeps using (and overwriting) its own buffer; the
    # instance documents that the matrix "will be copied"
    arr[:, :] = arr.T.copy() if not sym else (arr + (1 - np.eye(
        n, dtype=arr.dtype)).astype(arr.dtype))
    ctx.count("input_buffer_overwritten_after_construction")
    if any(int(stored[i, j]) != m[i][j] for i in range(n) for j in range(n)):
        ctx.violation("instance-aliases-the-callers-matrix",
                      f"overwriting the array passed to Instance changed the "
                      f"stored matrix (input dtype {arr.dtype}, storage "
                      f"{inst.dtype})", case0)
    else:
        t = tours[-1]
        x = space.create()
        x[:] = t
        if obj.evaluate(x) != sum(m[t[k - 1]][t[k]] for k in range(n)):
            ctx.violation("instance-aliases-the-callers-matrix",
                          "tour length changed after the caller's array was "
                          "overwritten", dict(case0, kind="tour", tour=t))
    # the other way a matrix becomes an instance: a TSPLIB text (declared
    # TSP or ATSP - an ATSP file may hold a symmetric matrix)
    if int(rng.integers(5)) == 0 and n <= 40 and max(
            max(r) for r in m) <= 10 ** 12:   # the text reader's number range
        from checks import C18
        typ = "ATSP" if (not sym or rng.integers(2)) else "TSP"
        lines = C18.header(C18.name_of(rng), typ, n, "EXPLICIT",
                           "FULL_MATRIX", rng) + ["EDGE_WEIGHT_SECTION"] \
            + C18.wrap(rng, [m[i][j] for i in range(n) for j in range(n)]) \
            + ["EOF"]
        fcase = {"kind": "file", "lines": lines, "matrix": m}
        ctx.case()
        ctx.count("instances_from_tsplib_text")
        ctx.count(f"tsplib_text_type[{typ}]")
        back = C18.load(lines)
        if bool(back.is_symmetric) != sym:
            ctx.violation("symmetry-flag", f"loaded from a {typ} file: "
                          f"is_symmetric={back.is_symmetric} but the matrix "
                          f"is {'symmetric' if sym else 'not'}", fcase)
        if C18.mat(back) != m:
            ctx.violation("stored-matrix-differs", "instance loaded from a "
                          "TSPLIB text differs from the listed matrix", fcase)
        else:
            t = tours[0]
            x = space.create()
            x[:] = t
            if TourLength(back).evaluate(x) != sum(
                    m[t[k - 1]][t[k]] for k in range(n)):
                ctx.violation("tour-length-differs", "on an instance loaded "
                              "from a TSPLIB text", fcase)
    if int(rng.integers(40)) == 0:
        ctx.sample({"n": n, "tag": tag, "dtype": str(inst.dtype),
                    "matrix_first_rows": m[:3], "lb": lb, "ub": ub,
                    "a_tour": tours[-1], "mult": mult})


def threads_shard(ctx, args):
    """One shared TSP instance, every thread its own TourLength object."""
    from moptipy.spaces.permutations import Permutations

    from moptipyapps.tsp.instance import Instance
    from moptipyapps.tsp.tour_length import TourLength
    from vlib.threads import stress
    rng = ctx.rng
    for _ in range(args["n"]):
        n = int(rng.choice([5, 17, 40, 129]))
        m, tag = gen_matrix(rng, n)
        if sum(max(r) for r in m) > 10 ** 15:
            continue
        inst = Instance(f"thr{n}", 0, np.array(m, np.int64))
        tours = [rng.permutation(n) for _ in range(10)]
        ref = [sum(m[int(t[k - 1])][int(t[k])] for k in range(n))
               for t in tours]

        def jobs_for(tid):
            o = TourLength(inst)
            sp = Permutations.standard(n)
            xs = []
            for t in tours:
                x = sp.create()
                x[:] = t
                xs.append(x)
            return [lambda x=x: o.evaluate(x) for x in xs]
        if not stress(ctx, "tour_lengths", jobs_for, ref,
                      lambda a, b: a == b, loops=40):
            return

def run_shard(ctx, args):
    if args.get("mode") == "threads":
        return threads_shard(ctx, args)
    rng = ctx.rng
    big_kernel(ctx, rng)
    if "part" in args:
        every_size(ctx, rng, args["part"], args["parts"])
    for it in range(args["n"]):
        n = int(rng.choice([2, 2, 3, 3, 4, 5, 6, 7, 8, 10, 13, 17, 25, 40]))
        if it % 10 == 7:
            n = int(rng.choice(sorted(SHIPPED_BY_N)))
        if it % 40 == 11:
            # city counts around 2^6, 2^7, 2^8: index types change there
            n = int(rng.choice([63, 64, 65, 127, 128, 129, 255, 256, 257]))
            ctx.count("size_window_instances")
        m, tag = gen_matrix(rng, n)
        mult = 1 if rng.integers(4) else int(rng.choice([2, 3, n, 2 * n]))
        cands = [dt for dt in (np.int8, np.uint8, np.int16, np.uint16,
                               np.int32, np.uint32, np.int64, np.uint64,
                               np.float16, np.float32, np.float32,
                               np.float64)
                 if fits(m, dt)]
        in_dtype = cands[int(rng.integers(len(cands)))] if rng.integers(3) \
            else np.int64
        ub = sum(max(m[i][j] for j in range(n) if j != i) for i in range(n))
        if ub > 10 ** 15:
            ctx.count("skipped_ub_too_large")
            continue
        one_instance(ctx, m, tag, mult, in_dtype,
                     n <= 6 and rng.integers(3) == 0)


def replay(ctx, case):
    if case.get("kind") == "file":
        m = case["matrix"]
        one_instance(ctx, m, "replay", 1, np.int64, len(m) <= 6)
        from checks import C18
        back = C18.load(case["lines"])
        sym = all(m[i][j] == m[j][i] for i in range(len(m))
                  for j in range(len(m)))
        if bool(back.is_symmetric) != sym or C18.mat(back) != m:
            ctx.violation("symmetry-flag", "instance loaded from the TSPLIB "
                          "text: flag or matrix differs", case)
        return
    one_instance(ctx, case["matrix"], "replay", case["mult"],
                 np.dtype(case["in_dtype"]), len(case["matrix"]) <= 6,
                 case.get("layout"))
