"""C03 - the bin-count lower bound never exceeds an achievable packing."""
from __future__ import annotations

from vlib.monitors.packing_contracts import PackingMonitor
from vlib.oracles import packing as po
from vlib.workloads import binpack as wb

PID = "C03"
RULE = ("(1) instances whose optimum is bounded by construction: k bins cut "
        "by random guillotine cuts (cut positions biased to W/2, H/2, W-q, "
        "H-q thresholds, squares, equal items; optional shrinking and random "
        "rotation of the pieces); the cut tree is a witness packing in k bins "
        "(judged by the feasibility oracle) so ceil(area/A) <= bound <= k, "
        "and bound == k when nothing was shrunk; (2) tiny random instances "
        "(<= 6 items, bins <= 6x6) packed by the harness' own exhaustive "
        "placement search (a found packing is a witness); (3) every packing "
        "produced by both decoders (icontract postcondition n_bins >= "
        "lower_bound_bins); BinCount.lower_bound() and InstanceSpace.min_bins "
        "agree. non-trivial = distinct instances where the bound exceeds the "
        "area bound or equals the witness bin count (tight)")
LEVEL_ASSUMPTIONS = [
    "witness packings are checked by vlib/oracles/packing.py",
    "the decided clause is 'bound <= bins of every packing we can exhibit': "
    "optimum known by construction / search, not for arbitrary instances"]
REQUIRED = {"witness_checked": 300, "bound_tight": 50,
            "concurrent_constructions": 3000,
            "huge_strip_instances_beyond_2^53": 50,
            "damv_above_area": 20, "contract_lower_bound_evaluated": 500,
            "tiny_exhaustive_search": 20}
MON = None


def plan(tier: str, seed: int):
    if tier == "quick":
        return [{"name": f"s{i}", "engine": "jit", "args": {"n": 1500},
                 "timeout": 900} for i in range(4)] + [
            {"name": "threads", "engine": "jit", "timeout": 900,
             "args": {"mode": "threads", "n": 3, "threads": 6, "loops": 40}}]
    return [{"name": f"s{i}", "engine": "jit", "args": {"n": 30000},
             "timeout": 3400} for i in range(14)] + [
        {"name": f"threads{i}", "engine": "jit", "timeout": 3400,
         "args": {"mode": "threads", "n": 30, "threads": 6, "loops": 60}}
        for i in range(2)]


def _monitor(ctx):
    global MON
    if MON is None:
        MON = PackingMonitor(ctx, judge_lower_bound=True)
        MON.install(objectives=False)
    return MON


def _cut_pos(rng, lo: int, hi: int, total: int) -> int:
    """A cut coordinate in (lo, hi), biased to half / threshold positions."""
    cands = []
    for c in (total // 2, total // 2 + 1, (total + 1) // 2, total // 3,
              total - total // 3, total // 2 - 1):
        if lo < c < hi:
            cands.append(c)
    m = (lo + hi) // 2
    for c in (m, m + 1, lo + 1, hi - 1):
        if lo < c < hi:
            cands.append(c)
    if cands and rng.integers(3) != 0:
        return int(rng.choice(cands))
    return int(rng.integers(lo + 1, hi))


def guillotine(rng, W, H, k, n_pieces, style):
    """Cut k bins into >= k pieces. Returns list of (bin, l, b, r, t)."""
    pieces = [(b + 1, 0, 0, W, H) for b in range(k)]
    guard = 0
    while len(pieces) < n_pieces and guard < 10 * n_pieces:
        guard += 1
        # prefer big pieces
        areas = [(p[3] - p[1]) * (p[4] - p[2]) for p in pieces]
        if style == "equal":
            i = max(range(len(pieces)), key=lambda j: areas[j])
        else:
            i = int(rng.integers(len(pieces)))
        b, le, bo, ri, to = pieces[i]
        w, h = ri - le, to - bo
        if w == 1 and h == 1:
            continue
        vertical = (w > 1) and (h == 1 or rng.integers(2) == 0)
        if style == "squares" and w != h:
            vertical = w > h
        if vertical:
            if style == "squares" and w > h:
                c = le + h
            elif style == "equal":
                c = le + w // 2
            else:
                c = _cut_pos(rng, le, ri, W)
            if not le < c < ri:
                continue
            pieces[i] = (b, le, bo, c, to)
            pieces.append((b, c, bo, ri, to))
        else:
            if style == "squares" and h > w:
                c = bo + w
            elif style == "equal":
                c = bo + h // 2
            else:
                c = _cut_pos(rng, bo, to, H)
            if not bo < c < to:
                continue
            pieces[i] = (b, le, bo, ri, c)
            pieces.append((b, le, c, ri, to))
    return pieces


def constructed_case(ctx, rng):
    style = str(rng.choice(["random", "random", "equal", "squares", "halves",
                            "tall"]))
    if style == "tall":
        W = int(rng.integers(1, 30))
        H = int(rng.integers(30, 150))
    else:
        W = int(rng.integers(1, 80))
        H = int(rng.integers(1, 80))
    k = int(rng.integers(1, 7))
    n_pieces = int(rng.integers(k, k + 14))
    pieces = guillotine(rng, W, H, k, n_pieces,
                        "random" if style in ("halves", "tall") else style)
    shrink = rng.integers(3) == 0
    rows_dims = []
    for (b, le, bo, ri, to) in pieces:
        w, h = ri - le, to - bo
        if shrink and rng.integers(2) == 0:
            if w > 1 and rng.integers(2):
                w -= int(rng.integers(1, min(w, 3)))
            elif h > 1:
                h -= int(rng.integers(1, min(h, 3)))
        rows_dims.append((b, le, bo, le + w, bo + h))
    # item types: merge equal (w, h); present some in rotated form
    types: dict[tuple[int, int], int] = {}
    order = []
    piece_type = []
    for (b, le, bo, ri, to) in rows_dims:
        w, h = ri - le, to - bo
        key = (w, h)
        # declare the item rotated when the rotated form is accepted too
        if rng.integers(3) == 0 and h <= max(W, H) and w <= max(W, H) \
                and (h <= min(W, H) or w <= min(W, H)):
            key = (h, w)
        if key not in types and (key[1], key[0]) in types \
                and rng.integers(2) == 0:
            key = (key[1], key[0])
        if key not in types:
            types[key] = 0
            order.append(key)
        types[key] += 1
        piece_type.append(key)
    items = [[kk[0], kk[1], types[kk]] for kk in order]
    desc = {"name": wb._name(rng), "W": W, "H": H, "items": items,
            "cls": "guillotine:" + style}
    ids = {kk: i + 1 for i, kk in enumerate(order)}
    rows = [[ids[piece_type[j]], b, le, bo, ri, to]
            for j, (b, le, bo, ri, to) in enumerate(rows_dims)]
    return desc, rows, k, bool(shrink), style


def judge_bound(ctx, desc, inst, k_witness, exact, origin, witness_rows,
                light=False):
    A = desc["W"] * desc["H"]
    area = sum(w * h * r for w, h, r in desc["items"])
    area_lb = max(1, -(-area // A))
    lb = inst.lower_bound_bins
    ctx.case()
    ctx.count("bound_judged")
    ctx.seen_max("max_lower_bound", int(lb))
    case = {"kind": "bound", "desc": desc, "k_witness": k_witness,
            "exact": exact, "origin": origin, "witness": witness_rows}
    if type(lb) is not int:
        ctx.violation("lower-bound-type", f"lower_bound_bins is {type(lb)}",
                      case)
    if lb < area_lb:
        ctx.violation("bound-below-area-bound",
                      f"lower_bound_bins={lb} < ceil(area/A)={area_lb}", case)
    if lb > k_witness:
        ctx.violation("bound-above-witness-packing",
                      f"lower_bound_bins={lb} but a feasible packing in "
                      f"{k_witness} bins exists ({origin})", case)
    if exact and lb != k_witness:
        ctx.violation("bound-not-tight-on-full-bins",
                      f"items tile {k_witness} bins completely but "
                      f"lower_bound_bins={lb}", case)
    if lb > area_lb:
        ctx.count("damv_above_area")
    if lb == k_witness:
        ctx.count("bound_tight")
    if lb > area_lb or lb == k_witness:
        ctx.nontrivial(desc["W"], desc["H"], sorted(map(tuple,
                                                        desc["items"])))
    # the other two observation points
    from moptipyapps.binpacking2d.instgen.instance_space import InstanceSpace
    from moptipyapps.binpacking2d.objectives.bin_count import BinCount
    if BinCount(inst).lower_bound() != lb:
        ctx.violation("BinCount.lower_bound-differs", "BinCount.lower_bound() "
                      "!= lower_bound_bins", case)
    if light:      # millions of items: the bound is what is judged here
        return
    try:
        sp = InstanceSpace(inst)
        ctx.count("instance_space_built")
        if sp.min_bins != min(lb, wb.n_items(desc)):
            ctx.violation("InstanceSpace.min_bins-differs",
                          f"min_bins={sp.min_bins} lb={lb}", case)
    except ValueError:
        ctx.count("instance_space_rejected")


def decode_some(ctx, desc, inst, n=3):
    from moptipyapps.binpacking2d.encodings.ibl_encoding_1 import (
        ImprovedBottomLeftEncoding1,
    )
    from moptipyapps.binpacking2d.encodings.ibl_encoding_2 import (
        ImprovedBottomLeftEncoding2,
    )
    from moptipyapps.binpacking2d.packing import Packing
    _monitor(ctx)
    y = Packing(inst)
    best = None
    for cls in (ImprovedBottomLeftEncoding1, ImprovedBottomLeftEncoding2):
        enc = cls(inst)
        for kind in ["bigfirst"] + ["random"] * (n - 1):
            enc.decode(wb.x_array(wb.gen_perm(ctx.rng, desc, kind), inst), y)
            if best is None or y.n_bins < best:
                best = int(y.n_bins)
    return best


def strips_case(ctx, rng):
    """Bins 10^11..10^12 wide and 2..8 high, filled with 1-high strips: the
    number of bins times the bin width exceeds 2^53 (areas stay < 2^63), the
    witness is the obvious stacking, H full-width strips per bin."""
    W = int(rng.integers(5 * 10 ** 11, 10 ** 12 + 1))
    H = int(rng.integers(2, 9))
    k = int(rng.integers(9_100, 40_000))
    delta = int(rng.choice([0, 0, 1, H - 1, -1]))
    ra = H * k + delta                     # full-width strips
    halves = int(rng.choice([0, 0, 2, 3, 2 * H]))
    items = [[W, 1, ra]]
    if halves:
        items.append([W // 2, 1, halves])
    rows_needed = ra + -(-halves // 2)
    bins = -(-rows_needed // H)
    exact = (delta == 0 and halves == 0) or (
        rows_needed % H == 0 and halves % 2 == 0 and W % 2 == 0)
    desc = {"name": wb._name(rng), "W": W, "H": H, "items": items,
            "cls": "strips"}
    inst = wb.make_real(desc)
    ctx.count("huge_strip_instances")
    if bins * W > 2 ** 53:
        ctx.count("huge_strip_instances_beyond_2^53")
    judge_bound(ctx, desc, inst, bins, exact,
                f"{H} full-width strips per bin, half-width strips in "
                f"pairs", None, light=True)


def threads_shard(ctx, args):
    """Instances built by several threads at the same time (a thread pool
    loading a benchmark set): every bound must equal what the same data
    gives when built alone."""
    import sys
    import threading
    rng = ctx.rng
    old_int = sys.getswitchinterval()
    sys.setswitchinterval(1e-5)
    try:
        for rnd in range(args["n"]):
            descs = []
            while len(descs) < 6:
                d = wb.gen_instance(rng, str(rng.choice(
                    ["general", "twins", "forcedrot", "itembin", "unit"])))
                try:
                    ref = wb.make_real(d)
                except ValueError:
                    continue
                descs.append((d, int(ref.lower_bound_bins),
                              int(ref.total_item_area)))
            # two with many equal squares: long bound computations
            for side, W in ((10, 100), (60, 100)):
                d = {"name": wb._name(rng), "W": W, "H": W,
                     "items": [[side, side, 50]], "cls": "squares"}
                ref = wb.make_real(d)
                descs.append((d, int(ref.lower_bound_bins),
                              int(ref.total_item_area)))
            bad: list = []
            loops = int(args.get("loops", 40))

            def work(tid):
                from moptipyapps.binpacking2d.instance import Instance
                for it in range(loops):
                    for k in range(len(descs)):
                        d, lb, area = descs[(k + tid) % len(descs)]
                        try:
                            i2 = Instance(d["name"], d["W"], d["H"],
                                          [list(r) for r in d["items"]])
                        except Exception as e:  # noqa: BLE001
                            bad.append((d, f"{type(e).__name__}: {e}", lb))
                            return
                        if int(i2.lower_bound_bins) != lb or int(
                                i2.total_item_area) != area:
                            bad.append((d, int(i2.lower_bound_bins), lb))
                            return
            ths = [threading.Thread(target=work, args=(t,))
                   for t in range(int(args.get("threads", 6)))]
            for t in ths:
                t.start()
            for t in ths:
                t.join()
            ctx.case(len(ths) * loops * len(descs))
            ctx.count("concurrent_constructions",
                      len(ths) * loops * len(descs))
            if bad:
                d, got, lb = bad[0]
                ctx.violation(
                    "bound-differs-under-concurrent-construction",
                    f"lower_bound_bins = {got} when built while other "
                    f"threads build instances, {lb} when built alone",
                    ctx.shard_replay_case(what="threads", desc=d))
                return
    finally:
        sys.setswitchinterval(old_int)


def run_shard(ctx, args):
    if args.get("mode") == "threads":
        return threads_shard(ctx, args)
    try:
        return _run_shard(ctx, args)
    finally:
        ctx.count("instances_built_from_a_stale_instance_object",
                  wb.STALE_BUILT[0])
        ctx.count("instances_built_from_a_buffer_overwritten_afterwards",
                  wb.ALIAS_BUILT[0])


def _run_shard(ctx, args):
    rng = ctx.rng
    _monitor(ctx)
    names = None
    for it in range(args["n"]):
        mode = it % 10
        try:
            if it % 25 == 7:
                strips_case(ctx, rng)
                continue
            if mode < 6:
                desc, rows, k, shrunk, style = constructed_case(ctx, rng)
                why = po.infeasibility(desc, rows, k)
                if why is not None:
                    ctx.count("witness_generator_bug")
                    ctx.inconclusive_because(
                        f"constructed witness infeasible: {why}")
                    continue
                ctx.count("witness_checked")
                ctx.count(f"style[{style}]")
                inst = wb.make_real(desc)
                judge_bound(ctx, desc, inst, k, not shrunk,
                            "guillotine construction", rows)
                decode_some(ctx, desc, inst, 2)
                if it % 40 == 0:
                    ctx.sample({"W": desc["W"], "H": desc["H"],
                                "items": desc["items"], "witness_bins": k,
                                "lower_bound_bins": int(
                                    inst.lower_bound_bins),
                                "shrunk": shrunk})
            elif mode < 8:
                # tiny instance, own exhaustive placement search
                W = int(rng.integers(1, 7))
                H = int(rng.integers(1, 7))
                items = []
                n = 0
                while n < int(rng.integers(1, 7)):
                    w = int(rng.integers(1, max(W, H) + 1))
                    h = int(rng.integers(1, min(W, H) + 1))
                    if rng.integers(2):
                        w, h = h, w
                    r = int(rng.integers(1, 3))
                    items.append([w, h, r])
                    n += r
                desc = {"name": wb._name(rng), "W": W, "H": H,
                        "items": items, "cls": "tinysearch"}
                inst = wb.make_real(desc)
                rects = []
                for w, h, r in items:
                    rects.extend([(w, h)] * r)
                kk = po.min_bins_exhaustive(W, H, rects, 300_000)
                if kk is None:
                    ctx.count("tiny_search_gave_up")
                    continue
                ctx.count("tiny_exhaustive_search")
                judge_bound(ctx, desc, inst, kk, False,
                            "harness placement search", None)
                decode_some(ctx, desc, inst, 2)
            else:
                # decoders never beat the bound: other instance classes
                cls = str(rng.choice(["general", "forcedrot", "itembin",
                                      "tiny", "shipped", "count"]))
                if cls == "shipped":
                    if names is None:
                        names = list(wb.shipped_names())
                    desc = wb.shipped_desc(str(rng.choice(names)))
                else:
                    desc = wb.gen_instance(rng, cls)
                inst = wb.make_real(desc)
                best = decode_some(ctx, desc, inst, 4)
                judge_bound(ctx, desc, inst, best, False,
                            "best decoded packing (feasibility judged by "
                            "the decode contract)", None)
        except ValueError as e:
            if wb.outside_domain(desc):
                ctx.count("generator_rejected_by_ctor")
                continue
            raise


def replay(ctx, case):
    desc = case["desc"]
    if case.get("kind") == "decode":
        inst = wb.make_real(desc)
        decode_some(ctx, desc, inst, 3)
        from checks import C01
        C01.MON = _monitor(ctx)
        e = {"ibf1": 1, "ibf2": 2}.get(case["enc"], case["enc"])
        C01.decode_case(ctx, C01.MON, desc, inst, C01._encoders(inst),
                        case["perm"], e, None)
        return
    inst = wb.make_real(desc)
    if case.get("witness"):
        assert po.infeasibility(desc, case["witness"],
                                case["k_witness"]) is None
    judge_bound(ctx, desc, inst, case["k_witness"], case["exact"],
                case["origin"], case.get("witness"),
                light=desc.get("cls") == "strips")
