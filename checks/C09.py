"""C09 - QAP objective equals the flow-distance sum within its bounds."""
from __future__ import annotations

import itertools
import math

import numpy as np

from vlib.workloads.arrays import LAYOUTS, relayout

PID = "C09"
RULE = ("n = 1..12, ASYMMETRIC non-negative flow / distance matrices: random "
        "with entries scaled so that the trivial upper bound stays < 10^15, "
        "sparse ones whose upper bound lands exactly at 127/128, 255/256, "
        "32767/8, 65535/6, 2^31+-1, 2^32+-1, ~10^15 (so the storage type is "
        "int8..uint32/int64 and a permutation attains the bound), zeros, "
        "constant; input dtypes int8..uint64; permutations random, identity, "
        "reversed, bound-attaining, ALL for n <= 6. QAPLIB text: the numbers "
        "of each block re-wrapped at random (1..k per line, rows split or "
        "joined, blank lines, tabs, leading/trailing blanks). Oracle: "
        "big-int double sum over the ORIGINAL matrices, stored matrices equal "
        "the given ones, lb <= v <= ub, own tokenisation of the text. "
        "non-trivial = distinct (F, D, p) with n >= 3 and F, D both "
        "non-symmetric")
LEVEL_ASSUMPTIONS = ["oracle: Python big-int double sum"]
REQUIRED = {"concurrent_qap_evaluations": 2000, "shipped_qaplib_instances": 50,
            "instances_with_given_bounds": 30, "tag[diagonal-sentinel]": 10, "size_window_instances": 10, "every_facility_count_instances": 80,
            "calls_on_one_objective_over_a_long_life": 70000, "tag[almost-symmetric]": 20, "evaluations": 3000, "dtype_edge_instances": 100,
            "value_equals_upper_bound": 50, "text_instances": 100,
            "instances_all_perms": 30}


def plan(tier: str, seed: int):
    # plus a thread-stress shard (vlib/threads.py)
    return _plan_nothreads(tier, seed) + [
        {"name": "threads", "engine": "jit", "timeout": 3000,
         "args": {"mode": "threads", "n": 4 if tier == "quick" else 60}}]


def _plan_nothreads(tier: str, seed: int):
    if tier == "quick":
        return [{"name": f"s{i}", "engine": "jit", "args": {"n": 400},
                 "timeout": 900} for i in range(4)]
    return [{"name": f"s{i}", "engine": "jit", "args": {"n": 24000},
             "timeout": 3400} for i in range(16)]


CLONE = [0]
SHIPPED_BY_N = {12: ["nug12", "chr12c", "had12", "tai12a"]}

EDGES = [127, 128, 255, 256, 32767, 32768, 65535, 65536, 2 ** 31 - 1, 2 ** 31,
         2 ** 31 + 1, 2 ** 32 - 1, 2 ** 32, 2 ** 32 + 1, 10 ** 15 - 1,
         999_999_999_999_937]


def trivial(F, D):
    n = len(F)
    f = sorted(v for r in F for v in r)
    d = sorted(v for r in D for v in r)
    ub = sum(a * b for a, b in zip(f, d))
    lb = sum(a * b for a, b in zip(f, d[::-1]))
    _ = n
    return lb, ub


def gen(rng, n):
    kind = int(rng.integers(10))
    F = [[0] * n for _ in range(n)]
    D = [[0] * n for _ in range(n)]
    tag = "random"
    if kind in (0, 1) and n >= 2:
        # sparse: upper bound lands exactly at a storage-type edge
        target = int(rng.choice(EDGES))
        divs = [d for d in (1, 2, 3, 5, 7, 17, 257, 65537, 127, 255)
                if target % d == 0]
        f = int(rng.choice(divs))
        d = target // f
        i, j = (int(v) for v in rng.choice(n, 2, replace=False))
        a, b = (int(v) for v in rng.choice(n, 2, replace=False))
        F[i][j] = f
        D[a][b] = d
        if rng.integers(2) and n >= 3:
            # some more small entries that do not change the largest product
            # pairing much: add ones
            k = int(rng.integers(1, 4))
            for _ in range(k):
                p, q = int(rng.integers(n)), int(rng.integers(n))
                if F[p][q] == 0 and rng.integers(2):
                    F[p][q] = 1
        tag = "edge"
    elif kind in (8, 9) and n >= 2:
        # almost symmetric: large symmetric entries, a few mirror entries
        # differ by 1..3 (and a non-zero diagonal); kind 9: exactly symmetric
        tag = "almost-symmetric" if kind == 8 else "symmetric"
        hi = int(rng.choice([100, 10 ** 5, 3 * 10 ** 6]))
        lim = max(1, int(math.isqrt((10 ** 15 - 1) // (n * n))))
        hi = min(hi, lim)
        for M in (F, D):
            for i in range(n):
                for j in range(i + 1):
                    v = int(rng.integers(hi // 2, hi + 1))
                    M[i][j] = M[j][i] = v
        if kind == 8:
            for M in (F, D):
                for _ in range(int(rng.integers(1, 4))):
                    i, j = (int(v) for v in rng.choice(n, 2, replace=False))
                    M[i][j] += int(rng.integers(1, 4))
    elif kind == 2:
        tag = "zeros"
        hi = int(rng.choice([1, 9, 1000]))
        for i in range(n):
            for j in range(n):
                if rng.integers(3) == 0:
                    F[i][j] = int(rng.integers(0, hi + 1))
                if rng.integers(3) == 0:
                    D[i][j] = int(rng.integers(0, hi + 1))
    elif kind == 3:
        tag = "constant"
        c1, c2 = int(rng.integers(0, 50)), int(rng.integers(0, 50))
        F = [[c1] * n for _ in range(n)]
        D = [[c2] * n for _ in range(n)]
    else:
        # scale so that n^2 * hf * hd < 10^15
        hf = int(rng.choice([1, 3, 15, 255, 70000, 10 ** 7]))
        lim = max(1, (10 ** 15 - 1) // (n * n * hf))
        hd = int(min(lim, int(rng.choice([1, 3, 15, 255, 70000, 10 ** 7]))))
        for i in range(n):
            for j in range(n):
                F[i][j] = int(rng.integers(0, hf + 1))
                D[i][j] = int(rng.integers(0, hd + 1))
        if kind == 4:
            for i in range(n):
                F[i][i] = 0
                D[i][i] = 0
            tag = "zero-diagonal"
            if rng.integers(2):
                # a large "no self-assignment" sentinel on one diagonal: it
                # is only ever multiplied by the other diagonal's zeros
                M = F if rng.integers(2) else D
                sv = int(rng.choice([127, 128, 9999, 65535, 10 ** 6]))
                for i in range(n):
                    M[i][i] = sv
                tag = "diagonal-sentinel"
        if kind == 5:
            tag = "big"
    return F, D, tag


def fits(m, dt):
    info = np.iinfo(dt)
    return info.min <= min(min(r) for r in m) and max(
        max(r) for r in m) <= info.max


def pick_dtype(rng, m):
    c = [dt for dt in (np.int8, np.uint8, np.int16, np.uint16, np.int32,
                       np.uint32, np.int64, np.uint64) if fits(m, dt)]
    return c[int(rng.integers(len(c)))]


def judge_instance(ctx, inst, F, D, case, tag, all_perms):
    from moptipy.spaces.permutations import Permutations

    from moptipyapps.qap.objective import QAPObjective
    rng = ctx.rng
    n = len(F)
    lb_o, ub_o = trivial(F, D)
    ctx.count(f"dtype[{inst.flows.dtype}]")
    if inst.n != n:
        ctx.violation("n-differs", f"{inst.n} != {n}", case)
        return
    if inst.flows.shape != (n, n) or inst.distances.shape != (n, n) or any(
            int(inst.flows[i, j]) != F[i][j] or
            int(inst.distances[i, j]) != D[i][j]
            for i in range(n) for j in range(n)):
        ctx.violation("stored-matrices-differ",
                      "instance.flows/.distances differ from the given "
                      f"matrices (dtype {inst.flows.dtype})", case)
        return
    obj = QAPObjective(inst)
    lb, ub = obj.lower_bound(), obj.upper_bound()
    if lb > lb_o or ub < ub_o:
        # tighter than the rearrangement bounds: only wrong if a value
        # falls outside, judged below; recorded for the evidence
        ctx.count("bounds_tighter_than_rearrangement")
    perms = []
    if all_perms:
        perms = [list(p) for p in itertools.permutations(range(n))]
        ctx.count("instances_all_perms")
        ctx.mark_exhaustive("all permutations of every enumerated instance "
                            "with n <= 6")
    else:
        perms.append(list(range(n)))
        perms.append(list(range(n))[::-1])
        for _ in range(6):
            perms.append([int(v) for v in rng.permutation(n)])
        if tag == "edge":
            # a permutation that maps the big flow onto the big distance
            mf = max(max(r) for r in F)
            md = max(max(r) for r in D)
            fi = [(i, j) for i in range(n) for j in range(n)
                  if F[i][j] == mf][0]
            di = [(i, j) for i in range(n) for j in range(n)
                  if D[i][j] == md][0]
            if (fi[0] == fi[1]) == (di[0] == di[1]):
                p = [None] * n
                p[fi[0]] = di[0]
                p[fi[1]] = di[1]
                rest = [v for v in range(n) if v not in (di[0], di[1])]
                rng.shuffle(rest)
                for k in range(n):
                    if p[k] is None:
                        p[k] = int(rest.pop())
                perms.append(p)
    space = Permutations.standard(n) if n >= 2 else None
    nonsym = (any(F[i][j] != F[j][i] for i in range(n) for j in range(n))
              and any(D[i][j] != D[j][i] for i in range(n)
                      for j in range(n)))
    xbuf = space.create() if space is not None else None
    for p in perms:
        if space is not None:
            x = xbuf          # one point buffer, overwritten in place
            x[:] = p
        else:
            x = np.array(p, np.int64)
        ctx.case()
        ctx.count("evaluations")
        v = obj.evaluate(x)
        want = sum(F[i][j] * D[p[i]][p[j]] for i in range(n)
                   for j in range(n))
        c = dict(case, perm=p)
        CLONE[0] += 1
        if CLONE[0] % 64 == 0 and n <= 40:
            from vlib.clones import judge_clones
            judge_clones(ctx, obj, lambda o: (o.evaluate(x), o.lower_bound(),
                                              o.upper_bound()),
                         (want, obj.lower_bound(), obj.upper_bound()),
                         "qap-value", c)
        if v != want or isinstance(v, (bool, float)):
            ctx.violation("value-differs",
                          f"QAP objective = {v!r}, flow-distance sum = {want}"
                          f" (n={n}, dtype {inst.flows.dtype}, {tag})", c)
        if not lb <= want <= ub:
            ctx.violation("value-outside-bounds",
                          f"{want} not in [{lb}, {ub}] (n={n}, {tag})", c)
        if want == ub:
            ctx.count("value_equals_upper_bound")
        if want == lb:
            ctx.count("value_equals_lower_bound")
        ctx.seen_max("max_value", want)
        if n >= 3 and nonsym:
            ctx.nontrivial(F, D, p)


def wrap_text(rng, n, F, D):
    """QAPLIB text with the numbers of each block re-wrapped at random."""
    lines = []
    if rng.integers(2):
        lines.append("")
    lines.append((" " * int(rng.integers(0, 3))) + str(n)
                 + (" " * int(rng.integers(0, 3))))
    for block in (F, D):
        nums = [v for r in block for v in r]
        if rng.integers(3) == 0:
            lines.append("")
        style = int(rng.integers(4))
        i = 0
        while i < len(nums):
            if style == 0:
                k = n                      # one row per line
            elif style == 1:
                k = int(rng.integers(1, 2 * n + 2))
            elif style == 2:
                k = 1
            else:
                k = int(rng.integers(1, n + 1))
            chunk = nums[i:i + k]
            i += len(chunk)
            sep = str(rng.choice([" ", "  ", "\t", " \t "]))
            lines.append((" " * int(rng.integers(0, 3)))
                         + sep.join(str(v) for v in chunk)
                         + (" " * int(rng.integers(0, 2))))
            if rng.integers(6) == 0:
                lines.append("   " if rng.integers(2) else "")
    if rng.integers(2):
        lines.append("")
    return lines


def shipped(ctx, part, parts):
    """Shipped QAPLIB files: size and both matrices as the file lists them
    (read by four lines of my own), a few objective values on top."""
    import os
    import re

    from moptipy.spaces.permutations import Permutations

    import moptipyapps.qap.qaplib as pkg
    from moptipyapps.qap.instance import Instance
    from moptipyapps.qap.objective import QAPObjective
    folder = os.path.dirname(pkg.__file__)
    names = sorted(f[:-4] for f in os.listdir(folder) if f.endswith(".dat"))
    for k, name in enumerate(names):
        if k % parts != part:
            continue
        with open(os.path.join(folder, name + ".dat"),
                  encoding="utf-8") as f:
            nums = [int(t) for t in re.findall(r"-?\d+", f.read())]
        n = nums[0]
        if n > 60 or len(nums) < 1 + 2 * n * n:
            ctx.count("shipped_qaplib_skipped")
            continue
        F = [nums[1 + i * n:1 + (i + 1) * n] for i in range(n)]
        D = [nums[1 + n * n + i * n:1 + n * n + (i + 1) * n]
             for i in range(n)]
        inst = Instance.from_resource(name)
        case = {"kind": "shipped", "name": name}
        ctx.case()
        ctx.count("shipped_qaplib_instances")
        if inst.n != n or [[int(v) for v in r] for r in inst.flows] != F \
                or [[int(v) for v in r] for r in inst.distances] != D:
            ctx.violation("shipped-qaplib-instance-differs-from-file",
                          f"{name}: n or matrices differ from the file "
                          f"(flows first)", case)
            continue
        obj = QAPObjective(inst)
        x = Permutations.standard(n).create()
        if n <= 20:
            # good assignments by a plain 2-swap descent of my own: a shipped
            # lower bound (table of best-known values) above a value that an
            # assignment actually attains is wrong
            Fa, Da = np.array(F, np.int64), np.array(D, np.int64)

            def val(p):
                return int((Fa * Da[np.ix_(p, p)]).sum())
            best, bestp = None, None
            for _ in range(600 if n <= 12 else 150 if n <= 16 else 60):
                p = ctx.rng.permutation(n)
                v = val(p)
                improved = True
                while improved:
                    improved = False
                    for a in range(n - 1):
                        for b in range(a + 1, n):
                            p[a], p[b] = p[b], p[a]
                            w = val(p)
                            if w < v:
                                v = w
                                improved = True
                            else:
                                p[a], p[b] = p[b], p[a]
                if best is None or v < best:
                    best, bestp = v, [int(q) for q in p]
            ctx.count("shipped_qaplib_descents")
            x[:] = bestp
            got = obj.evaluate(x)
            if got != best or not obj.lower_bound() <= got \
                    <= obj.upper_bound():
                ctx.violation(
                    "shipped-qaplib-value-outside-bounds",
                    f"{name}: assignment {bestp} has flow-distance sum "
                    f"{best} (objective says {got}), declared bounds "
                    f"[{obj.lower_bound()}, {obj.upper_bound()}]", case)
                continue
        for _ in range(3):
            p = [int(v) for v in ctx.rng.permutation(n)]
            x[:] = p
            want = sum(F[i][j] * D[p[i]][p[j]] for i in range(n)
                       for j in range(n))
            v = obj.evaluate(x)
            ctx.count("shipped_qaplib_evaluations")
            if v != want or not obj.lower_bound() <= v <= obj.upper_bound():
                ctx.violation("shipped-qaplib-value",
                              f"{name}: objective {v}, flow-distance sum "
                              f"{want}, bounds [{obj.lower_bound()}, "
                              f"{obj.upper_bound()}]", case)
                break


def threads_shard(ctx, args):
    """One shared QAP instance, every thread its own objective; instances
    also built concurrently."""
    from moptipy.spaces.permutations import Permutations

    from moptipyapps.qap.instance import Instance
    from moptipyapps.qap.objective import QAPObjective
    from vlib.threads import stress
    rng = ctx.rng
    for _ in range(args["n"]):
        n = int(rng.choice([3, 9, 12, 64]))
        F, D, tag = gen(rng, n)
        if trivial(F, D)[1] >= 10 ** 15:
            continue
        inst = Instance(np.array(D, np.int64), np.array(F, np.int64))
        perms = [[int(v) for v in rng.permutation(n)] for _ in range(8)]
        ref = [sum(F[i][j] * D[p[i]][p[j]] for i in range(n)
                   for j in range(n)) for p in perms]
        ref.append((int(inst.lower_bound), int(inst.upper_bound)))

        def jobs_for(tid):
            o = QAPObjective(inst)
            sp = Permutations.standard(n) if n >= 2 else None
            xs = []
            for p in perms:
                x = sp.create() if sp is not None else np.array(p, np.int64)
                x[:] = p
                xs.append(x)
            jobs = [lambda x=x: o.evaluate(x) for x in xs]

            def build():
                i2 = Instance(np.array(D, np.int64), np.array(F, np.int64))
                return (int(i2.lower_bound), int(i2.upper_bound))
            jobs.append(build)
            return jobs
        if not stress(ctx, "qap_evaluations", jobs_for, ref,
                      lambda a, b: a == b, loops=25):
            return

def long_life(ctx, rng):
    """One objective object over a long life: 70 000 (almost all distinct)
    permutations, then the first ones again - beyond 2^16 calls."""
    from moptipyapps.qap.instance import Instance
    from moptipyapps.qap.objective import QAPObjective
    n = int(rng.choice([10, 11, 12]))
    F, D, _tag = gen(rng, n)
    if trivial(F, D)[1] >= 10 ** 15:
        return
    Fa, Da = np.array(F, np.int64), np.array(D, np.int64)
    o = QAPObjective(Instance(Da, Fa))
    first = []
    x = np.arange(n)
    case = {"kind": "inst", "F": F, "D": D, "df": "int64", "dd": "int64",
            "lf": "C", "ld": "C", "long_life": True}
    for k in range(70_000):
        p = rng.permutation(n)
        x[:] = p
        v = o.evaluate(x)
        want = int((Fa * Da[np.ix_(p, p)]).sum())
        if k < 300:
            first.append((p, want))
        if int(v) != want:
            ctx.violation("value-differs",
                          f"call {k + 1} on one objective: {v} for "
                          f"{p.tolist()}, flow-distance sum {want}", case)
            return
    for p, want in first:
        x[:] = p
        v = o.evaluate(x)
        if int(v) != want:
            ctx.violation("value-differs",
                          f"{p.tolist()} evaluated again after 70 000 other "
                          f"calls on the same objective: {v}, flow-distance "
                          f"sum {want}", case)
            return
    ctx.case(70_300)
    ctx.count("calls_on_one_objective_over_a_long_life", 70_300)


def run_shard(ctx, args):
    if args.get("mode") == "threads":
        return threads_shard(ctx, args)
    from moptipyapps.qap.instance import Instance
    rng = ctx.rng
    if ctx.engine != "py":
        shipped(ctx, ctx.shard_idx % 4, 4)
    if ctx.shard_idx % 4 == 0 and ctx.engine == "jit":
        long_life(ctx, rng)
    # EVERY facility count up to 132 (this shard's share), not only windows
    for n in range(13 + ctx.shard_idx % 4, 133 if ctx.engine != "py" else 40,
                   4):
        F, D, tag = gen(rng, n)
        if trivial(F, D)[1] >= 10 ** 15:
            continue
        ctx.case()
        ctx.count("every_facility_count_instances")
        judge_instance(ctx, Instance(np.array(D), np.array(F)), F, D,
                       {"kind": "inst", "F": F, "D": D, "df": "int64",
                        "dd": "int64", "lf": "C", "ld": "C"}, tag, False)
    for it in range(args["n"]):
        n = int(rng.choice([1, 2, 2, 3, 3, 4, 4, 5, 6, 7, 9, 12]))
        if it % 40 == 11:
            # facility counts around 2^6, 2^7, 2^8
            n = int(rng.choice([63, 64, 65, 127, 128, 129, 255, 256, 257]))
            ctx.count("size_window_instances")
        F, D, tag = gen(rng, n)
        if n >= 63 and rng.integers(2):
            # many facilities, a dozen tiny flows, small distances: the
            # values fit one byte although the indices do not
            F = [[0] * n for _ in range(n)]
            for _ in range(int(rng.integers(3, 14))):
                i, j = (int(v) for v in rng.choice(n, 2, replace=False))
                F[i][j] = int(rng.integers(1, 3))
            i = n - 1 - int(rng.integers(0, 3))
            F[i][int(rng.integers(0, n - 4))] = 1      # a high index for sure
            fl = int(rng.integers(2, 7))
            D = [[abs(a // max(1, n // fl) - b // max(1, n // fl))
                  for b in range(n)] for a in range(n)]
            tag = "sparse-tiny-large-n"
        lb_o, ub_o = trivial(F, D)
        if ub_o >= 10 ** 15:
            ctx.count("skipped_ub_too_large")
            continue
        ctx.count(f"tag[{tag}]")
        if tag == "edge":
            ctx.count("dtype_edge_instances")
        all_perms = n <= 6 and rng.integers(3) == 0
        if it % 3 == 2:
            # through the QAPLIB text reader
            lines = wrap_text(rng, n, F, D)
            case = {"kind": "text", "lines": lines, "F": F, "D": D}
            ctx.case()
            ctx.count("text_instances")
            inst = Instance.from_qaplib_stream(
                iter([ln + "\n" for ln in lines]))
            judge_instance(ctx, inst, F, D, case, tag, all_perms)
        else:
            df, dd = pick_dtype(rng, F), pick_dtype(rng, D)
            lf, ld = (str(rng.choice(LAYOUTS + ("C",) * 3)) for _ in "fd")
            case = {"kind": "inst", "F": F, "D": D,
                    "df": str(np.dtype(df)), "dd": str(np.dtype(dd)),
                    "lf": lf, "ld": ld}
            ctx.case()
            ctx.count(f"input_layout[{lf}]")
            iname = f"rnd{n}" if rng.integers(2) else None
            if n in SHIPPED_BY_N and rng.integers(2):
                iname = str(rng.choice(SHIPPED_BY_N[n]))  # a shipped name
                ctx.count("instances_named_like_a_shipped_one")
            kw = {}
            if n <= 6 and rng.integers(2):
                # the optional bounds, as tight as they can validly be
                vals = [sum(F[i][j] * D[p[i]][p[j]] for i in range(n)
                            for j in range(n))
                        for p in itertools.permutations(range(n))]
                if rng.integers(2):
                    kw["upper_bound"] = max(vals)
                if rng.integers(2):
                    kw["lower_bound"] = min(vals)
                if kw:
                    ctx.count("instances_with_given_bounds")
                    case["bounds"] = {k: int(v) for k, v in kw.items()}
            inst = Instance(relayout(np.array(D, dd), ld),
                            relayout(np.array(F, df), lf), name=iname, **kw)
            # (no "caller re-uses its buffers" step here: unlike the TSP /
            # TTP / bin-packing instances, qap.Instance documents no copy
            # and deliberately keeps an array that already has the storage
            # type)
            judge_instance(ctx, inst, F, D, case, tag, all_perms)
        if it % 150 == 0:
            ctx.sample({"n": n, "tag": tag, "F": F[:3], "D": D[:3],
                        "trivial_bounds": [lb_o, ub_o],
                        "dtype": str(inst.flows.dtype)})
    # a straddling line must never be read into different matrices silently
    for _ in range(20):
        n = int(rng.integers(2, 5))
        F, D, _t = gen(rng, n)
        nums = [v for r in F for v in r] + [v for r in D for v in r]
        k = n * n - 1
        lines = [str(n), " ".join(map(str, nums[:k])),
                 " ".join(map(str, nums[k:k + 3])),
                 " ".join(map(str, nums[k + 3:]))]
        ctx.case()
        try:
            inst = Instance.from_qaplib_stream(iter(lines))
            ok = all(int(inst.flows[i, j]) == F[i][j] and
                     int(inst.distances[i, j]) == D[i][j]
                     for i in range(n) for j in range(n))
            ctx.count("straddling_line_accepted")
            if not ok:
                ctx.violation("straddling-line-misread",
                              "a line straddling the flow/distance boundary "
                              "was accepted and read into wrong matrices",
                              {"kind": "text", "lines": lines, "F": F,
                               "D": D})
        except ValueError:
            ctx.count("straddling_line_rejected")


def replay(ctx, case):
    from moptipyapps.qap.instance import Instance
    if case["kind"] == "shipped":
        shipped(ctx, 0, 1)
        return
    F, D = case["F"], case["D"]
    if case["kind"] == "text":
        inst = Instance.from_qaplib_stream(iter(case["lines"]))
    else:
        inst = Instance(
            relayout(np.array(D, np.dtype(case["dd"])), case.get("ld", "C")),
            relayout(np.array(F, np.dtype(case["df"])), case.get("lf", "C")),
            **{k: int(v) for k, v in case.get("bounds", {}).items()})
    judge_instance(ctx, inst, F, D, {k: v for k, v in case.items()
                                     if k != "perm"}, "replay",
                   len(F) <= 6)
