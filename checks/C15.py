"""C15 - game permutations decode to consistent earliest-slot schedules."""
from __future__ import annotations

import itertools
from collections import Counter

import numpy as np

PID = "C15"
RULE = ("ALL (n, rounds) with n = 2..16 (even and odd), rounds = 1..8 except "
        "(2,1) for the composition of the search space (quick; thorough: n up "
        "to 24, rounds up to 12); decoding: all permutations when the game "
        "multiset has <= 7 games, else random / sorted / reversed / "
        "one-team-first permutations; even n through GameEncoding.decode on "
        "real GamePlan objects, odd n and other day counts through the public "
        "map_games on plain arrays; destination pre-filled with garbage; one "
        "destination reused. Oracle: model 'games in order onto the earliest "
        "day on which both teams are free, else dropped' and the derived "
        "plan invariants. non-trivial = distinct (n, rounds, days, "
        "permutation) with >= 1 dropped game or odd n")
LEVEL_ASSUMPTIONS = ["model of the documented decoding in this file "
                     "(model_decode), validated on the two documented "
                     "map_games examples at start-up"]
EXHAUSTIVE_WHOLE = False
_XBUF: dict = {}


def REQUIRED(tier):  # noqa: N802
    return {"compositions_checked": 119 if tier == "quick" else 270,
            "decodes": 3000, "dropped_games": 200, "odd_n_decodes": 300,
            "gameplan_object_decodes": 500, "big_n_decodes": 8,
            "concurrent_game_decodes": 2000,
            "long_narrow_plan_decodes": 16,
            "all_team_counts_decodes": 240,
            "suite_runs": 1,
            "contract_map_games_evaluated": 1000}


# the repository's own tests as a further workload, observed by the
# process-wide contracts of vlib/monitors (see vlib/suite.py)
SUITE_TESTS = ['tests/ttp/test_game_encoding.py']
SUITE_DOMAINS = ['ttp']


def plan(tier: str, seed: int):
    # plus a thread-stress shard (vlib/threads.py)
    return _plan_nothreads(tier, seed) + [
        {"name": "threads", "engine": "jit", "timeout": 3000,
         "args": {"mode": "threads", "n": 4 if tier == "quick" else 60}}]


def _plan_nothreads(tier: str, seed: int):
    rounds = 1 if tier == "quick" else 6
    return _plan(tier, seed) + [
        {"name": f"suite{i}", "engine": "jit", "timeout": 3000,
         "args": {"mode": "suite", "tests": SUITE_TESTS,
                  "domains": SUITE_DOMAINS, "rounds": rounds}}
        for i in range(1 if tier == "quick" else 4)]


def _plan(tier: str, seed: int):
    if tier == "quick":
        return [{"name": "comp", "engine": "jit",
                 "args": {"mode": "comp", "nmax": 16, "rmax": 8},
                 "timeout": 900}] + [
            {"name": f"dec{i}", "engine": "jit",
             "args": {"mode": "decode", "n": 8000, "part": i, "parts": 3},
             "timeout": 900} for i in range(3)]
    return [{"name": "comp", "engine": "jit",
             "args": {"mode": "comp", "nmax": 24, "rmax": 12},
             "timeout": 2000}] + [
        {"name": f"dec{i}", "engine": "jit",
         "args": {"mode": "decode", "n": 120000, "part": i, "parts": 15},
         "timeout": 3400} for i in range(15)]


def game_to_pair(g: int, n: int) -> tuple[int, int]:
    """(home, away) zero-based, by the documented formula."""
    home = (g // (n - 1)) % n
    away = g % (n - 1)
    if away >= home:
        away += 1
    return home, away


def model_decode(n: int, days: int, perm) -> tuple[list[list[int]], int]:
    plan = [[0] * n for _ in range(days)]
    dropped = 0
    for g in perm:
        h, a = game_to_pair(int(g), n)
        for d in range(days):
            if plan[d][h] == 0 and plan[d][a] == 0:
                plan[d][h] = a + 1
                plan[d][a] = -(h + 1)
                break
        else:
            dropped += 1
    return plan, dropped


def check_composition(ctx, n, r):
    from moptipyapps.ttp.game_encoding import search_space_for_n_and_rounds
    ctx.case()
    sp = search_space_for_n_and_rounds(n, r)
    bp = [int(v) for v in sp.blueprint]
    case = {"kind": "comp", "n": n, "rounds": r}
    pair = Counter()
    opair = Counter()
    home = Counter()
    away = Counter()
    for g in bp:
        if not 0 <= g < n * (n - 1):
            ctx.violation("composition:code-out-of-range",
                          f"(n={n}, rounds={r}): game code {g}", case)
            return None
        h, a = game_to_pair(g, n)
        pair[frozenset((h, a))] += 1
        opair[(h, a)] += 1
        home[h] += 1
        away[a] += 1
    ctx.count("compositions_checked")
    if len(bp) != r * n * (n - 1) // 2:
        ctx.violation("composition:length", f"(n={n}, rounds={r}): "
                      f"{len(bp)} games", case)
    for i in range(n):
        for j in range(i):
            if pair[frozenset((i, j))] != r:
                ctx.violation("composition:pair-count",
                              f"(n={n}, rounds={r}): pairing ({i},{j}) occurs "
                              f"{pair[frozenset((i, j))]} times", case)
                return sp
            if abs(opair[(i, j)] - opair[(j, i)]) > 1:
                ctx.violation("composition:pair-home-away-balance",
                              f"(n={n}, rounds={r}): pairing ({i},{j}) home "
                              f"counts {opair[(i, j)]} vs {opair[(j, i)]}",
                              case)
                return sp
    for i in range(n):
        if abs(home[i] - away[i]) > 1:
            ctx.violation("composition:team-home-away-balance",
                          f"(n={n}, rounds={r}): team {i} has {home[i]} home "
                          f"and {away[i]} away games", case)
            return sp
    if n % 2 == 1 or r % 2 == 1:
        ctx.nontrivial("comp", n, r)
    return sp


def check_decode(ctx, n, r, days, perm, dest, use_object, sp=None):
    """Decode one permutation and compare with the model + invariants."""
    from moptipyapps.ttp.game_encoding import map_games
    case = {"kind": "decode", "n": n, "rounds": r, "days": days,
            "perm": [int(v) for v in perm], "object": bool(use_object)}
    ctx.case()
    ctx.count("decodes")
    # one permutation buffer per (length, type), overwritten in place
    xdt = np.dtype(sp.dtype if sp is not None else np.int64)
    x = _XBUF.get((len(perm), str(xdt)))
    if x is None:
        if len(_XBUF) > 64:
            _XBUF.clear()
        x = _XBUF[(len(perm), str(xdt))] = np.empty(len(perm), xdt)
    x[:] = perm
    if use_object:
        enc, gp = use_object
        gp[:, :] = dest
        enc.decode(x, gp)
        got = [[int(v) for v in row] for row in gp]
        ctx.count("gameplan_object_decodes")
    else:
        y = dest
        map_games(x, y)
        got = [[int(v) for v in row] for row in y]
    want, dropped = model_decode(n, days, perm)
    if dropped:
        ctx.count("dropped_games", dropped)
    if n % 2 == 1:
        ctx.count("odd_n_decodes")
    if dropped or n % 2 == 1:
        ctx.nontrivial(n, r, days, case["perm"])
    if got != want:
        ctx.violation("decode-differs-from-earliest-slot-model",
                      f"(n={n}, rounds={r}, days={days}): plan differs from "
                      f"the earliest-free-day model; got {got[:3]}.. want "
                      f"{want[:3]}..", case)
    # derived invariants, judged on what the decoder produced
    games = Counter()
    for d, row in enumerate(got):
        for a, v in enumerate(row):
            if v == 0:
                continue
            b = abs(v) - 1
            if not 0 <= b < n or b == a:
                ctx.violation("plan:self-or-range",
                              f"day {d} team {a}: entry {v}", case)
                return
            if (v > 0 and row[b] != -(a + 1)) or (v < 0 and row[b] != a + 1):
                ctx.violation("plan:inconsistent",
                              f"day {d}: team {a} has {v} but team {b} has "
                              f"{row[b]}", case)
                return
            if v > 0:
                games[(a, b)] += 1
    have = Counter(game_to_pair(int(g), n) for g in perm)
    for k, c in games.items():
        if c > have[k]:
            ctx.violation("plan:game-more-often-than-in-permutation",
                          f"game {k} scheduled {c} times, permutation has "
                          f"{have[k]}", case)
            return
    if sum(games.values()) + dropped != len(perm):
        ctx.violation("plan:game-count",
                      f"{sum(games.values())} scheduled + {dropped} dropped "
                      f"!= {len(perm)}", case)


def perms_for(rng, bp, n):
    yield "sorted", list(bp)
    yield "reversed", list(bp)[::-1]
    for t in range(min(n, 3)):
        first = [g for g in bp if t in game_to_pair(g, n)]
        rest = [g for g in bp if t not in game_to_pair(g, n)]
        yield "teamfirst", first + rest
    for _ in range(6):
        p = list(bp)
        rng.shuffle(p)
        yield "random", p


def decode_shard(ctx, count, part, parts):
    from moptipy.utils.nputils import int_range_to_dtype

    from checks import C07
    from moptipyapps.ttp.game_encoding import (
        GameEncoding,
        search_space_for_n_and_rounds,
    )
    from moptipyapps.ttp.game_plan import GamePlan
    rng = ctx.rng
    combos = [(n, r) for n in range(2, 17) for r in range(1, 9)
              if (n, r) != (2, 1)]
    done = 0
    # exhaustive small multisets (split over the shards)
    small = [(n, r) for (n, r) in combos if r * n * (n - 1) // 2 <= 7]
    for k, (n, r) in enumerate(small):
        if k % parts != part:
            continue
        sp = search_space_for_n_and_rounds(n, r)
        bp = [int(v) for v in sp.blueprint]
        seen = set()
        for days in {(n - 1) * r, n * r, max(1, (n - 1) * r - 1)}:
            dt = int_range_to_dtype(-n, n)
            for p in itertools.permutations(bp):
                if (p, days) in seen:
                    continue
                seen.add((p, days))
                dest = np.full((days, n), 77 % 120, dt)
                check_decode(ctx, n, r, days, list(p), dest, None, sp)
                done += 1
        ctx.count("exhaustive_small_multisets")
        ctx.mark_exhaustive(f"all permutations of the game multiset for "
                            f"(n={n}, rounds={r})")
    # team counts around 2^6 and 2^7 (index / mask types change there)
    for n in [int(v) for v in rng.choice(
            [63, 64, 65, 66, 70, 127, 128, 129, 130], 3, replace=False)]:
        sp = search_space_for_n_and_rounds(n, 1)
        bp = [int(v) for v in sp.blueprint]
        dt = int_range_to_dtype(-n, n)
        for tag in ("sorted", "random"):
            p = list(bp)
            if tag == "random":
                rng.shuffle(p)
            days = int(rng.choice([n - 1, n]))
            dest = np.full((days, n), 5, dt)
            check_decode(ctx, n, 1, days, p, dest, None, sp)
            ctx.count("big_n_decodes")
            ctx.count(f"big_n[{n}]")
    # long plans in the narrow plan type (<= 127 teams -> int8) with more
    # than 128 / 256 days, decoded from a permutation that lists a complete
    # schedule day by day (what a good search point looks like), and from
    # neighbours of it
    from vlib.oracles import ttp as ot
    for n, r in [[(24, 12), (18, 16), (4, 86), (6, 52), (4, 44), (10, 15)][
            int(v)] for v in rng.choice(6, 2, replace=False)]:
        sp = search_space_for_n_and_rounds(n, r)
        bp = [int(v) for v in sp.blueprint]
        codes: dict = {}
        for g in bp:
            h, a = game_to_pair(g, n)
            codes.setdefault((min(h, a), max(h, a)), []).append(g)
        sched = ot.circle_method(n, r, bool(rng.integers(2)))
        p = []
        for day in sched:
            for a, v in enumerate(day):
                if v > 0:
                    b = v - 1
                    p.append(codes[(min(a, b), max(a, b))].pop())
        if sorted(p) != sorted(bp):
            ctx.inconclusive_because("day-ordered permutation is not a "
                                     "permutation of the blueprint")
            break
        days = (n - 1) * r
        dt = int_range_to_dtype(-n, n)
        variants = [("schedule", p)]
        for _ in range(3):
            q = list(p)
            i, j = (int(v) for v in rng.choice(len(q), 2, replace=False))
            q[i], q[j] = q[j], q[i]
            variants.append(("schedule+swap", q))
        for tag, q in variants:
            dest = np.full((days, n), 3, dt)
            check_decode(ctx, n, r, days, q, dest, None, sp)
            ctx.count("long_narrow_plan_decodes")
            ctx.count(f"perm[{tag}]")
    from moptipy.utils.nputils import int_range_to_dtype
    from moptipyapps.ttp.game_encoding import (
        map_games,
        search_space_for_n_and_rounds,
    )
    # every team count from 17 to 260 (this shard's share), one round: the
    # decoded plan must be mutually consistent and may contain no game more
    # often than the permutation does (index arithmetic that is wrong for
    # isolated team counts only)
    for n in range(17 + part, 261 if ctx.engine != "py" else 41, parts):
        # (each pair once with a random orientation; the search space
        # object itself takes seconds to build for such n)
        q = []
        for i in range(n):
            for j in range(i):
                h, a = (i, j) if rng.integers(2) else (j, i)
                q.append(h * (n - 1) + (a if a < h else a - 1))
        q.sort()
        if n % 3:
            rng.shuffle(q)
        days = n - 1 if n % 2 == 0 else n
        y = np.zeros((days, n), int_range_to_dtype(-n, n))
        x = np.array(q, int_range_to_dtype(0, n * (n - 1) - 1))
        map_games(x, y)
        ctx.case()
        ctx.count("all_team_counts_decodes")
        have = Counter(game_to_pair(g, n) for g in q)
        seen_games: Counter = Counter()
        okp = True
        yl = y.tolist()
        for d, row in enumerate(yl):
            for a, v in enumerate(row):
                if v > 0:
                    b = v - 1
                    if b == a or b >= n or row[b] != -(a + 1):
                        okp = False
                    seen_games[(a, b)] += 1
                elif v < 0:
                    b = -v - 1
                    if b == a or b >= n or row[b] != a + 1:
                        okp = False
        if not okp or any(c > have[k] for k, c in seen_games.items()):
            ctx.violation("plan:game-more-often-than-in-permutation"
                          if okp else "plan:inconsistent",
                          f"n={n}, one round: the decoded plan is "
                          f"{'inconsistent' if not okp else 'not a sub-multiset of the permutation'}",
                          {"kind": "decode", "n": n, "rounds": 1,
                           "days": days, "perm": q, "object": False})
            break
    it = 0
    while done < count:
        n, r = combos[int(rng.integers(len(combos)))]
        if n > 10 and rng.integers(3):
            continue
        sp = search_space_for_n_and_rounds(n, r)
        bp = [int(v) for v in sp.blueprint]
        dt = int_range_to_dtype(-n, n)
        obj = None
        if n % 2 == 0:
            ll = r * n - 1
            inst = C07.make_instance(
                n, (r, 1, min(3, ll), 1, min(3, ll), min(1, ll), ll))
            obj = (GameEncoding(inst), GamePlan(inst))
        info = np.iinfo(dt)
        for tag, p in perms_for(rng, bp, n):
            if obj is not None:
                days = (n - 1) * r
                dest = rng.integers(info.min, info.max + 1, (days, n))
                check_decode(ctx, n, r, days, p, dest, obj, sp)
                done += 1
            days = int(rng.choice([(n - 1) * r, n * r,
                                   max(1, (n - 1) * r - 1),
                                   max(1, ((n - 1) * r) // 2)]))
            dest = rng.integers(info.min, info.max + 1, (days, n)).astype(dt)
            check_decode(ctx, n, r, days, p, dest, None, sp)
            done += 1
            ctx.count(f"perm[{tag}]")
        it += 1
        if it % 40 == 1:
            ctx.sample({"n": n, "rounds": r, "blueprint": bp[:20],
                        "a_permutation": p[:20]})


def selftest_model():
    want = [[2, -1, 4, -3], [3, 4, -1, -2], [4, 3, -2, -1], [-2, 1, -4, 3],
            [-3, -4, 1, 2], [-4, -3, 2, 1]]
    got, dropped = model_decode(4, 6, list(range(12)))
    assert got == want and dropped == 0, got
    got, _ = model_decode(2, 2, [0, 1])
    assert got == [[2, -1], [-2, 1]]


def threads_shard(ctx, args):
    """map_games / search_space_for_n_and_rounds from several threads, each
    with its own arrays."""
    from moptipy.utils.nputils import int_range_to_dtype

    from moptipyapps.ttp.game_encoding import (
        map_games,
        search_space_for_n_and_rounds,
    )
    from vlib.threads import stress
    rng = ctx.rng
    for _ in range(args["n"]):
        n = int(rng.choice([4, 5, 8, 12, 20]))
        r = int(rng.choice([1, 2, 3]))
        sp = search_space_for_n_and_rounds(n, r)
        bp = [int(v) for v in sp.blueprint]
        days = (n - 1) * r
        perms = []
        for _k in range(8):
            p = list(bp)
            rng.shuffle(p)
            perms.append(p)
        ref = [model_decode(n, days, p)[0] for p in perms]
        ref.append(sorted(bp))
        dt = int_range_to_dtype(-n, n)

        def jobs_for(tid):
            y = np.zeros((days, n), dt)
            xs = [np.array(p, sp.dtype) for p in perms]

            def dec(x):
                y.fill(7)
                map_games(x, y)
                return [[int(v) for v in row] for row in y]
            jobs = [lambda x=x: dec(x) for x in xs]
            jobs.append(lambda: sorted(int(v) for v in
                                       search_space_for_n_and_rounds(
                                           n, r).blueprint))
            return jobs
        if not stress(ctx, "game_decodes", jobs_for, ref,
                      lambda a, b: a == b, loops=30):
            return

def run_shard(ctx, args):
    if args.get("mode") == "threads":
        return threads_shard(ctx, args)
    selftest_model()
    if args["mode"] == "comp":
        for n in range(2, args["nmax"] + 1):
            for r in range(1, args["rmax"] + 1):
                if (n, r) == (2, 1):
                    continue
                check_composition(ctx, n, r)
        ctx.mark_exhaustive(f"search-space composition for all n=2.."
                            f"{args['nmax']}, rounds=1..{args['rmax']}")
        from moptipyapps.ttp.game_encoding import GameEncoding
        from moptipyapps.ttp.instance import Instance
        for nm in ("circ4", "con6", "gal8"):
            inst = Instance.from_resource(nm)
            bp = [int(v) for v in GameEncoding(inst).search_space().blueprint]
            ctx.case()
            if len(bp) != inst.rounds * inst.n_cities * (inst.n_cities - 1) \
                    // 2:
                ctx.violation("composition:GameEncoding.search_space",
                              f"{nm}: {len(bp)} games",
                              {"kind": "comp", "n": inst.n_cities,
                               "rounds": inst.rounds})
        ctx.sample({"compositions": "all (n, rounds) pairs", "example":
                    {"n": 3, "rounds": 1}})
    else:
        decode_shard(ctx, args["n"], args["part"], args["parts"])


def replay(ctx, case):
    from moptipy.utils.nputils import int_range_to_dtype

    from moptipyapps.ttp.game_encoding import search_space_for_n_and_rounds
    if case["kind"] == "comp":
        check_composition(ctx, case["n"], case["rounds"])
        return
    n, r, days = case["n"], case["rounds"], case["days"]
    sp = search_space_for_n_and_rounds(n, r)
    dest = np.full((days, n), 77, int_range_to_dtype(-n, n))
    check_decode(ctx, n, r, days, case["perm"], dest, None, sp)
