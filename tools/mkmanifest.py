"""Regenerate MANIFEST.json from the table below (python3 tools/mkmanifest.py)."""
import json
import os
import sys

HERE = os.path.dirname(os.path.dirname(os.path.abspath(__file__)))
sys.path.insert(0, HERE)
from tools.manifest_table import CHECKS, NOT_APPLICABLE  # noqa: E402

ALL = [f"C{i:02d}" for i in range(1, 21)]
checks = []
for pid in ALL:
    if pid not in CHECKS:
        continue
    c = CHECKS[pid]
    checks.append({
        "property_id": pid,
        "quick_cmd": f"./run.sh {pid} quick",
        "thorough_cmd": f"./run.sh {pid} thorough",
        "evidence_file": f"evidence/{pid}.json",
        "replay_cmd_template": f"./run.sh {pid} --replay {{path}}",
        "engine": c.get("engine", "jit"),
        "level_claimed": {"category": "exploration", "text": c["text"],
                          "design_ref": c.get("ref", f"DESIGN.md section 3, {pid}")},
        "level_note": c["note"],
        "technique": c["technique"],
    })
na = [{"property_id": p, "reason": r} for p, r in NOT_APPLICABLE.items()]
for pid in ALL:
    if pid not in CHECKS and pid not in NOT_APPLICABLE:
        na.append({"property_id": pid, "reason":
                   "check not built yet (planned, see DESIGN.md section 3); "
                   "not claimed in this commit"})
man = {
    "version": 1,
    "setup_cmd": "./run.sh setup",
    "hooks": {
        "guard": "MOPTIPYAPPS_VERIF",
        "enable": "no hooks in /repo: all monitors are attached from the "
                  "harness (attribute re-binding, proxies, icontract, "
                  "sys.monitoring); the guard name is reserved only",
        "baseline_off_cmd": "cd /repo && /venv/bin/python -m pytest -ra -q "
                            "-p no:cacheprovider --timeout=900 "
                            "--continue-on-collection-errors",
        "source_commits": [],
        "add_only": True,
    },
    "engines": [
        {"name": "jit", "path": "vlib/harness.py",
         "serves_properties": sorted(CHECKS),
         "kind_free_text": "shipped configuration: numba kernels compiled as "
         "declared (bounds checks off), own cache dir per tree hash"},
        {"name": "bc", "path": "vlib/harness.py",
         "serves_properties": [p for p in sorted(CHECKS) if "bc" in CHECKS[p].get("engines", "")],
         "kind_free_text": "NUMBA_BOUNDSCHECK=1 recompilation of the same "
         "kernels: out-of-range index raises IndexError (sanitizer analogue)"},
        {"name": "py", "path": "vlib/monitors/indexspy.py",
         "serves_properties": [p for p in sorted(CHECKS) if "py" in CHECKS[p].get("engines", "")],
         "kind_free_text": "NUMBA_DISABLE_JIT=1 with IndexSpy arrays recording "
         "every scalar index per kernel and array"},
    ],
    "checks": checks,
    "not_applicable": na,
    "notes": "Runtime monitoring only. Exit 0 held / 1 VIOLATION / 2 "
             "INCONCLUSIVE (monitor not reached, watchdog). Known findings in "
             "known_findings.json keyed by mechanism.",
}
json.dump(man, open(os.path.join(HERE, "MANIFEST.json"), "w"), indent=1)
print("checks:", [c["property_id"] for c in checks], "n/a:", len(na))
