"""Regenerate MANIFEST.json from the table below (python3 tools/mkmanifest.py)."""
import json
import os
import sys

HERE = os.path.dirname(os.path.dirname(os.path.abspath(__file__)))
sys.path.insert(0, HERE)
from tools.manifest_table import CHECKS, NOT_APPLICABLE  # noqa: E402

ALL = [f"C{i:02d}" for i in range(1, 21)]
# monitors added in later rounds (DESIGN.md section 8a)
THREADS = "; thread-stress shard (own component objects per thread, results vs single-thread references)"
EXTRA = {
    "C01": THREADS + "; the repository's own tests as a monitored workload; python -O shard; edit-and-rebuild cycles with re-used addresses (weak-reference monitor state)",
    "C02": THREADS + "; copies (copy/deepcopy/pickle) of the objective objects; repository tests as monitored workload",
    "C03": THREADS.replace("component objects", "instances") + "; instances built from stale Instance objects",
    "C04": "; python -O shard; wrapped-extent corruption class; repository tests as monitored workload",
    "C05": THREADS + "; every city count 2..320; stale Instance objects as constructor input; TSPLIB text entry point",
    "C06": "; hostile process proxy (undefined create() contents); kernels driven directly at 2^11/2^12 cities",
    "C07": THREADS + "; sign-flip neighbourhoods of feasible plans; every even team count 14..62",
    "C08": "; every even team count 14..62; directed-trip matrices at storage-type edges",
    "C09": THREADS + "; every facility count up to 132; 70 000-call life of one objective; shipped QAPLIB files re-parsed by an own reader",
    "C11": "; runs terminated from outside during the model phase + post-state probe; deepcopy / pickle copies of objectives holding data",
    "C12": "; fault injection on the clock (vlib/monitors/clockwarp.py: timers fire after a millionth of their interval) for the repetition of every run pair; result records for custom instances",
    "C13": "; guard zones (0/1-filled) around every plain array of direct kernel calls in the compiled engines: changed zone = write outside, result depending on zone contents = read outside",
    "C14": THREADS + "; thousands of simultaneously open bins with an expectation derived from the model on a reduced instance",
    "C15": THREADS + "; one decode per team count 17..260 with a structural invariant",
    "C16": "; short-lived systems handed to every controller factory (address re-use); digit-colliding ANN architectures",
    "C17": "; clock fault injection on the hardness runs; one long-lived Hardness rating short-lived instances (address re-use, decoded unobserved); iterable executors",
    "C18": "; same path rewritten with equal size and time stamps; decimal / exponent spellings in explicit sections; shipped coordinate files vs TSPLIB95",
    "C19": "; python -O shards; tables mixing bin-bound selections; oracle-feasible layout variants through the text form; column scopes",
    "C20": "; every object count 12..140; mixed int/float user distances; tag functions returning str / tuple / list / iterator / generator",
}
checks = []
for pid in ALL:
    if pid not in CHECKS:
        continue
    c = CHECKS[pid]
    checks.append({
        "property_id": pid,
        "quick_cmd": f"./run.sh {pid} quick",
        "thorough_cmd": f"./run.sh {pid} thorough",
        "evidence_file": f"evidence/{pid}.json",
        "replay_cmd_template": f"./run.sh {pid} --replay {{path}}",
        "engine": c.get("engine", "jit"),
        "level_claimed": {"category": "exploration", "text": c["text"],
                          "design_ref": c.get("ref", f"DESIGN.md section 3, {pid}")},
        "level_note": c["note"],
        "technique": c["technique"] + EXTRA.get(pid, ""),
    })
na = [{"property_id": p, "reason": r} for p, r in NOT_APPLICABLE.items()]
for pid in ALL:
    if pid not in CHECKS and pid not in NOT_APPLICABLE:
        na.append({"property_id": pid, "reason":
                   "check not built yet (planned, see DESIGN.md section 3); "
                   "not claimed in this commit"})
man = {
    "version": 1,
    "setup_cmd": "./run.sh setup",
    "hooks": {
        "guard": "MOPTIPYAPPS_VERIF",
        "enable": "no hooks in /repo: all monitors are attached from the "
                  "harness (attribute re-binding, proxies, icontract, "
                  "sys.monitoring); the guard name is reserved only",
        "baseline_off_cmd": "cd /repo && /venv/bin/python -m pytest -ra -q "
                            "-p no:cacheprovider --timeout=900 "
                            "--continue-on-collection-errors",
        "source_commits": [],
        "add_only": True,
    },
    "engines": [
        {"name": "jit", "path": "vlib/harness.py",
         "serves_properties": sorted(CHECKS),
         "kind_free_text": "shipped configuration: numba kernels compiled as "
         "declared (bounds checks off), own cache dir per tree hash"},
        {"name": "bc", "path": "vlib/harness.py",
         "serves_properties": [p for p in sorted(CHECKS) if "bc" in CHECKS[p].get("engines", "")],
         "kind_free_text": "NUMBA_BOUNDSCHECK=1 recompilation of the same "
         "kernels: out-of-range index raises IndexError (sanitizer analogue)"},
        {"name": "py", "path": "vlib/monitors/indexspy.py",
         "serves_properties": [p for p in sorted(CHECKS) if "py" in CHECKS[p].get("engines", "")],
         "kind_free_text": "NUMBA_DISABLE_JIT=1 with IndexSpy arrays recording "
         "every scalar index per kernel and array"},
    ],
    "checks": checks,
    "not_applicable": na,
    "notes": "Runtime monitoring only. Exit 0 held / 1 VIOLATION / 2 "
             "INCONCLUSIVE (monitor not reached, watchdog). Known findings in "
             "known_findings.json keyed by mechanism.",
}
json.dump(man, open(os.path.join(HERE, "MANIFEST.json"), "w"), indent=1)
print("checks:", [c["property_id"] for c in checks], "n/a:", len(na))
