"""tools/mkpatch.py <out.diff> <relative file> <old> <new> [count]: one-replacement patch against /repo HEAD."""
import difflib
import subprocess
import sys
out, rel, old, new = sys.argv[1:5]
nth = int(sys.argv[5]) if len(sys.argv) > 5 else None
src = subprocess.run(["git", "-C", "/repo", "show", f"HEAD:{rel}"],
                     capture_output=True, text=True, check=True).stdout
old = old.encode().decode("unicode_escape")
new = new.encode().decode("unicode_escape")
c = src.count(old)
if c == 0 or (c > 1 and nth is None):
    sys.exit(f"old text occurs {c} times")
if nth is None:
    dst = src.replace(old, new)
else:
    parts = src.split(old)
    dst = old.join(parts[:nth]) + new + old.join(parts[nth:])
d = difflib.unified_diff(src.splitlines(True), dst.splitlines(True),
                         f"a/{rel}", f"b/{rel}")
open(out, "a").write("".join(d))
print("wrote", out)
