#!/bin/bash
# tools/sweep.sh <tier> <seed> [<seed> ...]   (env IDS="C01 C02 ..." to restrict)
# Runs the checks with other seeds; evidence goes to a scratch directory.
TIER="$1"; shift
IDS="${IDS:-C01 C02 C03 C04 C05 C06 C07 C08 C09 C10 C11 C12 C13 C14 C15 C16 C17 C18 C19 C20}"
cd "$(dirname "$0")/.."
for S in "$@"; do
  for ID in $IDS; do
    out=$(VERIF_SEED=$S VERIF_EVIDENCE_DIR=/tmp/sweep-ev ./run.sh $ID $TIER 2>&1); rc=$?
    echo "seed=$S $ID rc=$rc $(echo "$out" | grep -E "^C[0-9]+ (quick|thorough)" | sed 's/.*evaluations=/ev=/' | cut -c1-110)"
    if [ $rc -ne 0 ]; then echo "$out" | grep -E "^(violation|INCONCLUSIVE|VIOLATION)" | head -5 | cut -c1-400; fi
  done
done
rm -rf /tmp/sweep-ev
