"""tools/equivsave.py <ID> <checks that stayed silent...>: keep a confirmed behaviour-preserving refactoring."""
import json
import os
import shutil
import sys
pid = sys.argv[1]
checks = sys.argv[2:]
src = os.environ.get("SEEDBASE", "/tmp/seed3") + f"/out-{pid}"
dst = f"/verif/seeded/equivalent/{pid}"
os.makedirs(dst, exist_ok=True)
shutil.copy(f"{src}/patch.diff", dst)
shutil.copy(f"{src}/equiv_test.py", dst)
meta = json.load(open(f"{src}/meta.json"))
json.dump({"property": pid, "refactoring": meta.get("summary"),
           "why_equivalent": meta.get("why_equivalent"),
           "author": "independent sub-agent (saw only the property text and a scratch worktree)",
           "agent_tests_run": meta.get("tests_run"),
           "confirmed_by_me": "tools/equivcheck.sh: patch applies to /repo HEAD; the agent's differential test (original vs refactored) exits 0",
           "checks_that_must_stay_silent": checks},
          open(f"{dst}/meta.json", "w"), indent=1)
print("saved", dst)
