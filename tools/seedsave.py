"""tools/seedsave.py <ID> <caught_by> <what_i_ran...>: keep a confirmed sub-agent change under seeded/<ID>/."""
import json
import os
import shutil
import sys
pid, caught = sys.argv[1], sys.argv[2]
ran = " ".join(sys.argv[3:])
import os as _o
src = _o.environ.get("SEEDBASE", "/tmp/seed9") + f"/out-{pid}"
name = pid if not os.path.isdir(f"/verif/seeded/{pid}") else None
k = 2
while name is None:
    cand = f"{pid}-{k}"
    if not os.path.isdir(f"/verif/seeded/{cand}"):
        name = cand
    k += 1
dst = f"/verif/seeded/{name}"
os.makedirs(dst)
shutil.copy(f"{src}/patch.diff", dst)
shutil.copy(f"{src}/demo.py", dst)
meta = json.load(open(f"{src}/meta.json"))
meta2 = {"property": pid, "breaks": meta.get("summary"),
         "needs_to_manifest": meta.get("needs"),
         "author": "independent sub-agent (saw only the property text and a scratch worktree)",
         "agent_tests_run": meta.get("tests_run"),
         "confirmed_by_me": ran or "tools/seedcheck.sh: patch applies to /repo HEAD; demo exits 1 with the patch and 0 without; the relevant repository tests pass with the patch",
         "caught_by": caught}
json.dump(meta2, open(f"{dst}/meta.json", "w"), indent=1)
print("saved", dst)
