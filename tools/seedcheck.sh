#!/bin/bash
# tools/seedcheck.sh <ID> [check ids...] : confirm a sub-agent change and run checks against it
# - patch applies to a fresh scratch worktree of /repo HEAD
# - demo exits 1 with the patch, 0 on /repo
# - relevant repository tests pass with the patch (subset per property)
# - run the named checks (default: the property's own) against the patched tree
ID="$1"; shift
CHECKS="${@:-$ID}"
OUT=${SEEDBASE:-/tmp/seed9}/out-$ID
W=/tmp/sc-$ID-$$
declare -A T
T[C01]="tests/binpacking2d/encodings tests/binpacking2d/test_binpacking2d_packing_space.py"
T[C02]="tests/binpacking2d/objectives"
T[C03]="tests/binpacking2d/test_binpacking2d_instance.py"
T[C04]="tests/binpacking2d/test_binpacking2d_packing_space.py tests/binpacking2d/encodings"
T[C05]="tests/tsp/test_tour_length.py tests/tsp/test_tsp_instance.py"
T[C06]="tests/tsp/test_ea1p1_revn.py tests/tsp/test_fea1p1_revn.py"
T[C07]="tests/ttp"; T[C08]="tests/ttp"; T[C15]="tests/ttp"
T[C09]="tests/qap"
T[C10]="tests/dynamic_control/test_ode.py tests/dynamic_control/test_objective.py"
T[C11]="tests/dynamic_control/test_objective.py tests/dynamic_control/test_surrogate_optimizer.py"
T[C12]="tests/binpacking2d/test_binpacking2d_experiment.py tests/binpacking2d/test_binpacking2d_packing_result_and_statistics.py"
T[C13]="tests/ttp tests/qap"
T[C14]="tests/binpacking2d/encodings"
T[C16]="tests/dynamic_control/test_controllers.py tests/dynamic_control/test_systems.py"
T[C17]="tests/binpacking2d/instgen"
T[C18]="tests/tsp/test_tsp_instance.py"
T[C19]="tests/binpacking2d/test_binpacking2d_packing_result_and_statistics.py tests/binpacking2d/test_binpacking2d_packing_space.py"
T[C20]="tests/qap"
git -C /repo worktree add -q --detach "$W" HEAD || exit 3
trap 'git -C /repo worktree remove --force "$W" >/dev/null 2>&1' EXIT
git -C "$W" apply "$OUT/patch.diff" || { echo "PATCH DOES NOT APPLY"; exit 3; }
echo "--- files touched: $(git -C "$W" diff --stat | tail -1)"
PYTHONPATH="$W" NUMBA_CACHE_DIR="$W/.nbc" timeout 900 /venv/bin/python "$OUT/demo.py" >/tmp/sc-demo-$ID.log 2>&1; r1=$?
PYTHONPATH=/repo NUMBA_CACHE_DIR=/tmp/sc-nbc0 timeout 900 /venv/bin/python "$OUT/demo.py" >/tmp/sc-demo0-$ID.log 2>&1; r0=$?
echo "--- demo: patched rc=$r1 (want 1), unchanged rc=$r0 (want 0)"
if [ -n "${T[$ID]:-}" ] && [ -z "${SKIP_TESTS:-}" ]; then
  (cd "$W" && PYTHONPATH="$W" NUMBA_CACHE_DIR="$W/.nbc" timeout 2400 /venv/bin/python -m pytest ${T[$ID]} -q -p no:cacheprovider --timeout=900 2>&1 | tail -1)
fi
for C in $CHECKS; do
  out=$(cd /verif && VERIF_REPO="$W" VERIF_EVIDENCE_DIR="$W/.ev" timeout 3000 ./run.sh "$C" "${TIER:-quick}" 2>&1); rc=$?
  echo "== check $C rc=$rc"
  echo "$out" | grep -E "^violation" | sed 's/engine=.*shard=[a-z0-9-]*//' | cut -c1-260 | sort | uniq -c | head -4
  echo "$out" | grep -E "^INCONCLUSIVE" | head -2 | cut -c1-200
done
TH=$(cd /verif && VERIF_REPO="$W" PYTHONPATH=/verif /venv/bin/python -c "from vlib.harness import tree_hash;print(tree_hash())")
rm -rf /verif/.nbcache/*-$TH
