#!/bin/bash
# Behaviour-preserving (w.r.t. the properties) variants: no check may alarm.
cd "$(dirname "$0")/.."
rc=0
for p in breaks/equivalent/*.diff; do
  id=$(basename $p | cut -d- -f1)
  out=$(tools/mutant.sh $p $id 2>&1 | grep -E "^==")
  echo "$(basename $p): $out" | cut -c1-150
  echo "$out" | grep -q "rc=0" || rc=1
done
exit $rc
