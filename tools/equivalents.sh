#!/bin/bash
# Behaviour-preserving (w.r.t. the properties) variants: no check may alarm.
#  - breaks/equivalent/*.diff           my own small variants (checked against their own property)
#  - seeded/equivalent/<ID>/patch.diff  independent sub-agents' refactorings (checked against the
#    checks listed in meta.json "checks_that_must_stay_silent")
# usage: tools/equivalents.sh [quick|thorough]
cd "$(dirname "$0")/.."
export TIER="${1:-quick}"
rc=0
for p in breaks/equivalent/*.diff; do
  id=$(basename $p | cut -d- -f1)
  out=$(tools/mutant.sh $p $id 2>&1 | grep -E "^==")
  echo "$(basename $p): $out" | cut -c1-150
  echo "$out" | grep -q "rc=0" || rc=1
done
for d in seeded/equivalent/C* seeded/freedom/C*; do
  id=$(basename $d)
  checks=$(/venv/bin/python -c "import json;print(' '.join(json.load(open('$d/meta.json'))['checks_that_must_stay_silent']))")
  out=$(tools/mutant.sh $d/patch.diff $checks 2>&1 | grep -E "^==")
  echo "equivalent/$id: $(echo $out)" | cut -c1-300
  echo "$out" | grep -qv "rc=0" && rc=1
done
exit $rc
