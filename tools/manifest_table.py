"""Per-check texts for MANIFEST.json."""
TB = ("CPython 3.12, numpy, numba/LLVM, scipy, moptipy/pycommons as pinned; "
      "the harness oracle for this property (plain-Python, self-tested on the "
      "repository's documented examples at start-up)")

CHECKS = {
    "C04": {
        "technique": "runtime monitoring: differential oracle on "
                     "PackingSpace.validate/from_str over generated feasible "
                     "layouts and classified corruptions",
        "text": "validate() and from_str() of the real code are executed on "
                "thousands of feasible layouts (decoder outputs, random "
                "placements, non-decoder variants, bins > 10^9) and on "
                "single/multi-field corruptions; an independent feasibility "
                "predicate labels each matrix and acceptance must coincide. "
                "Held on the matrices explored - not a proof for all matrices.",
        "note": TB,
    },
}

CHECKS["C01"] = {
    "technique": "runtime monitoring: icontract postcondition on both "
                 "encodings' decode() calling an independent feasibility "
                 "oracle, over generated boundary/hostile instances and "
                 "exhaustive small signed-permutation sets",
    "text": "Every decode() of the real encoders in the workload (tens of "
            "thousands per quick run; 1x1 bins, item==bin, forced rotation, "
            "int8/int16/int32 storage edges, ~127 unit items, shipped "
            "instances; all signed permutations for <= 4 items) is judged by "
            "an oracle that is not the package's validator. Held on what was "
            "decoded; the quantifier over all instances is sampled.",
    "note": TB,
}
CHECKS["C02"] = {
    "technique": "runtime monitoring: icontract postcondition on the seven "
                 "objectives' evaluate() recomputing the documented value; "
                 "bounds, to_bin_count and pairwise dominance over pools of "
                 "feasible packings incl. non-decoder layouts; history of "
                 "one objective object",
    "text": "Values, bounds, bin-count conversion and dominance of the real "
            "objective objects are compared with an independent "
            "recomputation on pools of oracle-filtered feasible packings "
            "(decoder outputs and layouts no decoder produces), with one "
            "long-lived objective object per instance so stale scratch "
            "state would show. Held on the packings explored.",
    "note": TB,
}
CHECKS["C03"] = {
    "technique": "runtime monitoring: lower_bound_bins observed on "
                 "instances with a witness packing (guillotine construction, "
                 "harness placement search, decoder outputs) + postcondition "
                 "n_bins >= bound on every decode",
    "text": "The bound computed by the real constructor is compared with "
            "ceil(area/A) and with the bin count of witness packings that "
            "the oracle accepts: instances cut from k full bins (bound must "
            "be exactly k when nothing is shrunk), tiny instances packed by "
            "an own search, and every packing the decoders emit. Decides "
            "'bound <= every packing exhibited', not optimality in general.",
    "note": TB,
}
CHECKS["C14"] = {
    "technique": "runtime monitoring: recorded call histories on one encoder "
                 "object / one destination packing compared with an "
                 "executable model of the documented bottom-left rule",
    "text": "Sequences of decodings that reuse one encoder and one (dirtied) "
            "destination are compared row by row with a stateless model "
            "written from the documentation; a mismatch is classified as "
            "rule deviation or history dependence by re-decoding with fresh "
            "objects. Held on the histories explored.",
    "note": TB,
}

NOT_APPLICABLE = {}
