"""Per-check texts for MANIFEST.json."""
TB = ("CPython 3.12, numpy, numba/LLVM, scipy, moptipy/pycommons as pinned; "
      "the harness oracle for this property (plain-Python, self-tested on the "
      "repository's documented examples at start-up)")

CHECKS = {
    "C04": {
        "technique": "runtime monitoring: differential oracle on "
                     "PackingSpace.validate/from_str over generated feasible "
                     "layouts and classified corruptions",
        "text": "validate() and from_str() of the real code are executed on "
                "thousands of feasible layouts (decoder outputs, random "
                "placements, non-decoder variants, bins > 10^9) and on "
                "single/multi-field corruptions; an independent feasibility "
                "predicate labels each matrix and acceptance must coincide. "
                "Held on the matrices explored - not a proof for all matrices.",
        "note": TB,
    },
}

NOT_APPLICABLE = {}
