"""Per-check texts for MANIFEST.json."""
TB = ("CPython 3.12, numpy, numba/LLVM, scipy, moptipy/pycommons as pinned; "
      "the harness oracle for this property (plain-Python, self-tested on the "
      "repository's documented examples at start-up)")

CHECKS = {
    "C04": {
        "technique": "runtime monitoring: differential oracle on "
                     "PackingSpace.validate/from_str over generated feasible "
                     "layouts and classified corruptions",
        "text": "validate() and from_str() of the real code are executed on "
                "thousands of feasible layouts (decoder outputs, random "
                "placements, non-decoder variants, bins > 10^9) and on "
                "single/multi-field corruptions; an independent feasibility "
                "predicate labels each matrix and acceptance must coincide. "
                "Held on the matrices explored - not a proof for all matrices.",
        "note": TB,
    },
}

CHECKS["C01"] = {
    "technique": "runtime monitoring: icontract postcondition on both "
                 "encodings' decode() calling an independent feasibility "
                 "oracle, over generated boundary/hostile instances and "
                 "exhaustive small signed-permutation sets",
    "text": "Every decode() of the real encoders in the workload (tens of "
            "thousands per quick run; 1x1 bins, item==bin, forced rotation, "
            "int8/int16/int32 storage edges, ~127 unit items, shipped "
            "instances; all signed permutations for <= 4 items) is judged by "
            "an oracle that is not the package's validator. Held on what was "
            "decoded; the quantifier over all instances is sampled.",
    "note": TB,
}
CHECKS["C02"] = {
    "technique": "runtime monitoring: icontract postcondition on the seven "
                 "objectives' evaluate() recomputing the documented value; "
                 "bounds, to_bin_count and pairwise dominance over pools of "
                 "feasible packings incl. non-decoder layouts; history of "
                 "one objective object",
    "text": "Values, bounds, bin-count conversion and dominance of the real "
            "objective objects are compared with an independent "
            "recomputation on pools of oracle-filtered feasible packings "
            "(decoder outputs and layouts no decoder produces), with one "
            "long-lived objective object per instance so stale scratch "
            "state would show. Held on the packings explored.",
    "note": TB,
}
CHECKS["C03"] = {
    "technique": "runtime monitoring: lower_bound_bins observed on "
                 "instances with a witness packing (guillotine construction, "
                 "harness placement search, decoder outputs) + postcondition "
                 "n_bins >= bound on every decode",
    "text": "The bound computed by the real constructor is compared with "
            "ceil(area/A) and with the bin count of witness packings that "
            "the oracle accepts: instances cut from k full bins (bound must "
            "be exactly k when nothing is shrunk), tiny instances packed by "
            "an own search, and every packing the decoders emit. Decides "
            "'bound <= every packing exhibited', not optimality in general.",
    "note": TB,
}
CHECKS["C14"] = {
    "technique": "runtime monitoring: recorded call histories on one encoder "
                 "object / one destination packing compared with an "
                 "executable model of the documented bottom-left rule",
    "text": "Sequences of decodings that reuse one encoder and one (dirtied) "
            "destination are compared row by row with a stateless model "
            "written from the documentation; a mismatch is classified as "
            "rule deviation or history dependence by re-decoding with fresh "
            "objects. Held on the histories explored.",
    "note": TB,
}

CHECKS["C05"] = {
    "technique": "runtime monitoring: reference-model oracle (Python-int "
                 "cyclic sum over the original matrix) on TourLength / "
                 "Instance over generated matrices at storage-type edges",
    "text": "Real Instance and TourLength objects are built from generated "
            "matrices (symmetric, asymmetric, one-corner asymmetric, zeros, "
            "10^12 entries, derived upper bound at int8/int16/int32 edges, "
            "range multiplier) and evaluated on random / extremal / all "
            "(n<=6) tours; value, stored matrix, symmetry flag and "
            "lb <= len <= ub are compared with the oracle. Held on the "
            "matrices and tours explored.",
    "note": TB,
}
CHECKS["C06"] = {
    "technique": "runtime monitoring: wrappers on the move kernels and a "
                 "process proxy record every move / register event of real "
                 "Executions; online oracle recomputes the exact tour length",
    "text": "Hundreds of real EA/FEA runs (budgets 1..5000 FEs, many seeds, "
            "synthetic and shipped symmetric instances) are observed at the "
            "kernel boundary and at process.register/evaluate; each of the "
            "~10^5 events is judged (permutation, exact length, EA "
            "monotone, FEA table addresses in range). For n <= 8 every "
            "admissible (i, j) is driven directly. Held on the runs "
            "observed.",
    "note": TB,
}
CHECKS["C07"] = {
    "technique": "runtime monitoring: exhaustive execution of the real "
                 "count_errors on all 12^6 consistent four-team plans per "
                 "constraint setting against an independent feasible-set DFS "
                 "and per-rule counter; random plans through Errors.evaluate",
    "text": "The real kernel is run on every one of the 2 985 984 consistent "
            "four-team double round-robin plans for several constraint "
            "settings: zero set == independently enumerated feasible set, "
            "value == documented per-rule count for all of them; random "
            "plans (byes, inconsistencies, self-pairings, n=2..12) are "
            "judged for zero-iff-feasible, non-negativity and the declared "
            "upper bound. Exhaustive for n=4 per setting, sampled beyond.",
    "note": TB,
}
CHECKS["C08"] = {
    "technique": "runtime monitoring: simulation oracle on "
                 "GamePlanLength.evaluate; bye replacement on every cell; "
                 "exhaustive minimum over all 12^6 plans of shipped "
                 "four-team instances vs. published optimum",
    "text": "Values of the real objective on random matrices x plans equal a "
            "plain simulation and lie in the declared bounds; zeroing any "
            "single game cell strictly increases the value (tens of "
            "thousands of cells); for shipped four-team instances the "
            "minimum over all error-free plans (repository kernels, all "
            "12^6 plans) equals the published optimum and the oracle's "
            "minimum over the independently enumerated feasible set.",
    "note": TB,
}
CHECKS["C15"] = {
    "technique": "runtime monitoring: reference model of earliest-free-day "
                 "decoding and composition oracle over all (n, rounds) of a "
                 "grid; exhaustive permutations of small game multisets",
    "text": "search_space_for_n_and_rounds is executed for every (n, rounds) "
            "of the grid and its multiset judged (pair counts, home/away "
            "balance per pairing and team); map_games / GameEncoding.decode "
            "run on thousands of permutations (all of them for <= 7 games) "
            "with dirty destinations, compared with a model and with the "
            "derived plan invariants. Held on what was decoded.",
    "note": TB,
}

CHECKS["C09"] = {
    "technique": "runtime monitoring: big-int reference oracle on "
                 "QAPObjective / qap.Instance / from_qaplib_stream over "
                 "generated asymmetric matrices at storage-type edges and "
                 "randomly wrapped QAPLIB text",
    "text": "Real instances are built directly and through the QAPLIB reader "
            "from generated asymmetric matrices whose trivial upper bound "
            "lands at int8..int64 edges (a permutation attaining the bound "
            "included); value, stored matrices and lb <= v <= ub are "
            "compared with a big-int recomputation for random / extremal / "
            "all (n<=6) permutations. Held on what was evaluated.",
    "note": TB,
}
CHECKS["C18"] = {
    "technique": "runtime monitoring: harness-written TSPLIB95 files "
                 "(explicit formats with random wrapping, coordinate types) "
                 "loaded by the real reader and compared with the format's "
                 "definition; to_stream round trip; shipped tours vs optimum",
    "text": "The real reader/writer is run on generated files: round trips, "
            "four explicit encodings of the same matrix with random line "
            "wrapping, and EUC_2D/CEIL_2D/ATT/GEO coordinate files judged by "
            "TSPLIB95 distance definitions (exact integer arithmetic where "
            "possible). All shipped optimal tours are re-measured against "
            "the documented optima. Held on the files explored.",
    "note": TB,
}
CHECKS["C20"] = {
    "technique": "runtime monitoring: reference-model oracle on "
                 "order1d.Instance.from_sequence_and_distance with position "
                 "tags; exhaustive swap_distance over all permutation pairs "
                 "up to length 6/7 vs. a BFS table",
    "text": "Instances built by the real factory from generated sequences "
            "with duplicates and ties are judged against an own "
            "representative/average-rank model (mapping, |i-j| distances, "
            "flow ordering, horizon). swap_distance is executed on every "
            "pair of permutations up to length 6 (7 thorough) and compared "
            "with minimal transposition counts from BFS.",
    "note": TB,
}

CHECKS["C13"] = {
    "engine": "bc", "engines": "bc py",
    "technique": "sanitizer analogue for JIT code: the shipped numba "
                 "kernels recompiled with global bounds checking "
                 "(NUMBA_BOUNDSCHECK=1) under the other checks' workloads + "
                 "an extreme corpus; IndexSpy arrays in interpreted mode "
                 "record index extremes per kernel; valgrind memcheck on the "
                 "unchecked machine code (thorough)",
    "text": "Every kernel is executed on reduced slices of the C01-C09, C14, "
            "C15, C20 (and controller) workloads and on an extreme corpus "
            "(last index, one-item, own-bin, self-pairing, n=2, tour at the "
            "upper bound) with bounds checks compiled in; any IndexError is "
            "a violation. In interpreted mode spies report min/max index vs. "
            "size per kernel and array. Decides 'no out-of-range index on "
            "the inputs executed', not memory safety in general.",
    "note": TB + "; numba implements NUMBA_BOUNDSCHECK for every array "
            "index expression of the recompiled kernels",
}

CHECKS["C16"] = {
    "engines": "py",
    "technique": "runtime monitoring: reference evaluation (structural "
                 "monomial probing, nearest-anchor law, layer-by-layer "
                 "network, published equations) on every call of "
                 "Controller.controller / System.equations; generated ANN "
                 "source executed for hundreds of architectures",
    "text": "All bundled controller blueprints and the three systems are "
            "called thousands of times and compared with the documented "
            "functions; the polynomial controllers are probed structurally "
            "so that a missing monomial or unused parameter shows; ANN "
            "factories are exercised over random architectures (compiled "
            "and interpreted) incl. cache-neighbour architectures; inputs "
            "are compared bitwise. Held on the calls made.",
    "note": TB,
}

CHECKS["C17"] = {
    "technique": "runtime monitoring: postcondition wrapper on "
                 "InstanceDecoder.decode + sys.monitoring state-diff tracer "
                 "that reconstructs a witness packing from the decoder's own "
                 "cuts, judged by an independent feasibility oracle; "
                 "objective range/repeatability monitors",
    "text": "Every decode() of the workload (shipped and synthetic "
            "templates, all admissible vector lengths, extreme-value and "
            "adversarial-slack vectors) is observed line by line; the cuts "
            "the real code makes are turned into a layout in min_bins bins "
            "which must be a feasible packing of exactly the generated "
            "instance, the area must still need min_bins bins and the "
            "instance's own lower bound must equal it; a logical line budget "
            "bounds each call. Errors/Hardness are judged for range, "
            "template = 0 and repeatability. Held on the vectors explored.",
    "note": TB + "; CPython sys.monitoring LINE events",
}

CHECKS["C19"] = {
    "technique": "runtime monitoring: round-trip oracle with field-by-field "
                 "comparison (not the classes' own ==) over generated "
                 "instances, packings, plans, orderings and heterogeneous "
                 "result / statistics tables",
    "text": "from_X(to_X(obj)) of the real writers/readers is executed on "
            "generated objects and on CSV tables of 1..40 records built from "
            "real packings whose optional columns (encoding, max_fes, "
            "max_time, goal_f) are present/absent in all mixtures; every "
            "field, dtype, derived attribute and dictionary key is compared. "
            "Two defects of the pinned moptipy dependency are reported as "
            "KNOWN-FINDING by mechanism. Held on the objects explored.",
    "note": TB,
}

CHECKS["C10"] = {
    "technique": "runtime monitoring: postcondition oracle on every run_ode "
                 "result, wrappers counting right-hand-side evaluations and "
                 "RK45 constructions (bounded progress), recomputation of J "
                 "/ T / differentials, analytic expm reference for linear "
                 "programs",
    "text": "run_ode of the real code is driven with bundled systems x "
            "controller families, linear programs with closed-form solutions "
            "and hostile controllers (blow-up now / later / NaN / inf / "
            "9.9e9 / growing / stateful shrinking failure time, time "
            "dependent laws); every result must be a full, sane, "
            "self-consistent table or the failure row; termination is "
            "decided as bounded progress (<= 5 cycles, RHS budget; "
            "over-budget runs are reported undecided). Held on the programs "
            "executed.",
    "note": TB + "; scipy RK45 and expm",
}

CHECKS["C11"] = {
    "technique": "runtime monitoring: recorded call histories on one "
                 "objective object (incl. the real SurrogateOptimizer run) "
                 "checked offline against a small sequential model and "
                 "against freshly constructed objectives; ghost reads of the "
                 "collected training data",
    "text": "Random interleavings of evaluate / initialize / set_model / "
            "set_raw / get_differentials on one FigureOfMerit(LE) object and "
            "the history produced by the real surrogate optimizer are "
            "recorded with the size and checksum of the collected data after "
            "every call; each evaluate must equal (bitwise) what a fresh "
            "objective returns in that mode and the independently recomputed "
            "mean / log-exp mean of per-case J; the collection may only grow "
            "in real-system evaluates. Held on the histories recorded.",
    "note": TB,
}

CHECKS["C12"] = {
    "technique": "runtime monitoring: the bundled setup functions are "
                 "executed twice per (instance, seed, budget) as real "
                 "moptipy runs with log files; an own log reader and the "
                 "domain oracles re-evaluate the logged solution; the two "
                 "histories must be identical; bin-packing logs are parsed "
                 "back by the package",
    "text": "For bin packing (rls/fea x 7 objectives x 2 encodings), TSP "
            "(EA/FEA/RLS), the TTP and QAP example searches, instance "
            "generation and controller synthesis, each run pair is checked "
            "for: FEs within budget, logged and live final solution feasible "
            "(independent oracle), logged best f = independent "
            "re-evaluation, bitwise equal results of the two executions, "
            "and Packing.from_log / from_single_log agreeing with the "
            "oracle values and live bounds. The dependency crash of "
            "BiPop-CMA-ES restart logging is a KNOWN-FINDING by mechanism. "
            "Held on the runs executed.",
    "note": TB,
}

NOT_APPLICABLE = {}
