#!/bin/bash
# tools/equivcheck.sh <ID> [check ids...] : a sub-agent's behaviour-preserving refactoring must NOT alarm.
# - patch applies to a fresh scratch worktree of /repo HEAD
# - the agent's differential test (original vs refactored) exits 0
# - the named checks (default: the property's own and C13) exit 0 against the refactored tree
ID="$1"; shift
CHECKS="${@:-$ID C13}"
OUT=${SEEDBASE:-/tmp/seed3}/out-$ID
W=/tmp/eq-$ID-$$
git -C /repo worktree add -q --detach "$W" HEAD || exit 3
trap 'git -C /repo worktree remove --force "$W" >/dev/null 2>&1' EXIT
git -C "$W" apply "$OUT/patch.diff" || { echo "PATCH DOES NOT APPLY"; exit 3; }
echo "--- files touched: $(git -C "$W" diff --stat | tail -1)"
if [ -z "${SKIP_DIFFTEST:-}" ]; then
  sed "s#/tmp/seed3/$ID#$W#g" "$OUT/equiv_test.py" > /tmp/eq-test-$ID.py
  (cd /tmp && timeout 900 /venv/bin/python /tmp/eq-test-$ID.py >/tmp/eq-test-$ID.log 2>&1); echo "--- differential test rc=$? (want 0)"
fi
cd "$(dirname "$0")/.."
for C in $CHECKS; do
  out=$(VERIF_REPO="$W" VERIF_EVIDENCE_DIR=/tmp/eq-ev-$ID ./run.sh $C ${TIER:-quick} 2>&1); rc=$?
  echo "== check $C rc=$rc (want 0)"
  [ $rc -ne 0 ] && echo "$out" | grep -E "^(violation|INCONCLUSIVE|VIOLATION)" | head -6 | cut -c1-500
done
rm -rf /tmp/eq-ev-$ID
