"""python3-vt tools/validate.py : validate MANIFEST.json and evidence/*.json."""
import glob
import json
import jsonschema
import sys
ok = True
m = json.load(open('/verif/MANIFEST.json'))
jsonschema.validate(m, json.load(open('/root/.vp/MANIFEST.schema.json')))
es = json.load(open('/root/.vp/EVIDENCE.schema.json'))
claimed = {c["property_id"] for c in m["checks"]}
for f in sorted(glob.glob('/verif/evidence/*.json')):
    try:
        jsonschema.validate(json.load(open(f)), es)
    except Exception as e:
        ok = False
        print("BAD", f, str(e)[:300])
have = {f.split('/')[-1][:-5] for f in glob.glob('/verif/evidence/*.json')}
print("claimed", sorted(claimed), "missing evidence:", sorted(claimed - have))
print("OK" if ok else "FAILED")
sys.exit(0 if ok else 1)
