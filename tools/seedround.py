"""tools/seedround.py <base dir, e.g. /tmp/seed9> [IDs...]: prepare a round of
independent property-breaking changes: one scratch worktree of /repo HEAD per
property under <base>/<ID> and <base>/out-<ID>/{PROPERTY.txt,PROMPT.txt}.
Each sub-agent is then started with: "Read the file <base>/out-<ID>/PROMPT.txt
and follow the instructions in it exactly. Do not read anything under /verif."
Afterwards: tools/seedcheck.sh, tools/seedsave.py (SEEDBASE=<base>), and
`git -C /repo worktree remove --force <base>/<ID>`."""
import glob
import json
import os
import subprocess
import sys

T = {"C01": "tests/binpacking2d/encodings tests/binpacking2d/test_binpacking2d_packing_space.py",
     "C02": "tests/binpacking2d/objectives",
     "C03": "tests/binpacking2d/test_binpacking2d_instance.py",
     "C04": "tests/binpacking2d/test_binpacking2d_packing_space.py tests/binpacking2d/encodings",
     "C05": "tests/tsp/test_tour_length.py tests/tsp/test_tsp_instance.py",
     "C06": "tests/tsp/test_ea1p1_revn.py tests/tsp/test_fea1p1_revn.py",
     "C07": "tests/ttp", "C08": "tests/ttp", "C15": "tests/ttp",
     "C09": "tests/qap",
     "C10": "tests/dynamic_control/test_ode.py tests/dynamic_control/test_objective.py",
     "C11": "tests/dynamic_control/test_objective.py tests/dynamic_control/test_surrogate_optimizer.py",
     "C12": "tests/binpacking2d/test_binpacking2d_experiment.py tests/binpacking2d/test_binpacking2d_packing_result_and_statistics.py tests/tsp/test_ea1p1_revn.py tests/tsp/test_fea1p1_revn.py",
     "C13": "tests/ttp tests/qap tests/tsp/test_tour_length.py tests/binpacking2d/encodings",
     "C14": "tests/binpacking2d/encodings",
     "C16": "tests/dynamic_control/test_controllers.py tests/dynamic_control/test_systems.py",
     "C17": "tests/binpacking2d/instgen",
     "C18": "tests/tsp/test_tsp_instance.py",
     "C19": "tests/binpacking2d/test_binpacking2d_packing_result_and_statistics.py tests/binpacking2d/test_binpacking2d_packing_space.py",
     "C20": "tests/qap"}

BASE = '''You are helping to evaluate a verification tool by writing a realistic, subtle BUG into a Python library. The tool's authors claim it detects violations of a given semantic property; six rounds of colleagues have tried before you and every one of their changes is detected now. Your job is to produce a change that violates the property in a way that the tool is likely to MISS.

Workspace: a scratch git worktree of the library thomasWeise/moptipyapps at @B@/@ID@ (edit ONLY files inside this directory; never touch /repo or /verif, and do not read anything under /verif). Python: /venv/bin/python. To run code against your worktree use `cd @B@/@ID@ && PYTHONPATH=@B@/@ID@ NUMBA_CACHE_DIR=@B@/@ID@/.nbc /venv/bin/python ...` (PYTHONPATH makes your copy win over the installed one). There is no network (tests/binpacking2d/test_make_instances.py always fails for that reason - ignore it). Put every scratch file under @B@/@ID@ or @B@/out-@ID@ and remove temporary directories you create elsewhere.

The semantic property is in @B@/out-@ID@/PROPERTY.txt. READ IT FIRST; it names the anchor files where the behaviour lives.

Your task:
1. Make ONE small, realistic change (the kind a maintainer could make by mistake during an optimisation, a refactoring, a "simplification", a caching attempt, a dtype/performance tweak, an off-by-one in a rarely taken branch ...) to the library code in the anchor files (or code they call) such that the property is VIOLATED for some inputs / histories / configurations, while
   - the code still imports and runs (numba still compiles),
   - the existing tests relevant to the touched code still pass: `cd @B@/@ID@ && PYTHONPATH=@B@/@ID@ NUMBA_CACHE_DIR=@B@/@ID@/.nbc /venv/bin/python -m pytest @TESTS@ -q -p no:cacheprovider --timeout=900` (run it; also the doctests of every file you touch: `/venv/bin/python -m pytest --doctest-modules <file> -q -p no:cacheprovider`),
   - the violation needs something SPECIFIC to manifest - it must not show up on most ordinary inputs, and it must not be a crash on every call,
   - it must be a violation of the property AS STATED in PROPERTY.txt for inputs / configurations the library accepts and a user could plausibly produce (not merely a different error message, not an input the library rejects anyway; not one mutable component object shared by several threads).
2. These changes were already written for this property (all detected now). Yours must use a DIFFERENT code site AND a different kind of trigger from all of them:
@PRIOR@
   The tool's workloads are known to contain these trigger families, so avoid them: counts around 64/128/256/2048 and every team count up to 260; values beyond 2^31 / 2^53 / 2^63; arrays in Fortran / strided layout and in narrow, unsigned or float dtypes; instances named like each other or like shipped ones; a sibling object with another configuration used first; exact zeros / ties / coinciding points / exactly cancelling values / values a hair off a rounding boundary; the caller overwriting arrays it passed in or re-using buffers in place; one-shot iterables and lists the caller keeps changing; long histories on one object (also after calls that raised); every public entry point (text / file loaders, multi_run_ode, from_logs with custom selections, scoped CSV writers, get_x_dim, fancy_logs, do_log_h); files rewritten in place with equal size and time stamps; shipped resource files re-parsed independently; random, enumerated and sign-flipped neighbourhoods of feasible inputs; feasible packings with rows in any order; None elements; repeated identical objects; user functions returning mixed int/float types; user-defined controllers; layer widths up to 64; long move chains; day-ordered permutations; several threads at once each with its OWN objects; `python -O`; timers / wall-clock limits (the tool runs on a simulated slow machine); runs terminated from outside; memory right next to arrays (guard zones).
   Think about what is still left, e.g.: a clause of the property nobody attacked yet; a combination of THREE ordinary features; behaviour that depends on the ORDER of otherwise equivalent inputs; quantities that are only wrong by one unit and only sometimes; state that leaks between two DIFFERENT public classes; an environment dependence (locale, current directory, environment variable, recursion depth, hash randomisation, warnings turned into errors); behaviour on the 1000th call or after garbage collection; pickling / copying / subclassing of the public objects; rarely used optional arguments not listed above; sizes that are an isolated arithmetic special case rather than a power of two.
3. Write @B@/out-@ID@/demo.py: a stand-alone script that imports the library normally (it is run with PYTHONPATH pointing at either tree), exercises the violating input and checks the PROPERTY (not your implementation detail) with an independent computation; it must `sys.exit(1)` with a message when the property is violated and `sys.exit(0)` otherwise, finish in < 2 minutes. Verify: exit 1 with PYTHONPATH=@B@/@ID@, exit 0 with PYTHONPATH=/repo (use a different NUMBA_CACHE_DIR for each tree!).
4. Save the patch: `cd @B@/@ID@ && git diff -- moptipyapps examples > @B@/out-@ID@/patch.diff` and write @B@/out-@ID@/meta.json with keys "property" ("@ID@"), "summary", "needs" (exactly what is needed for the violation to manifest, and how rare it is under random inputs), "tests_run".

Report back briefly: the change, what it needs to manifest, and the outcome of the tests and of the demo on both trees. Do not edit any test.
'''


def main():
    base = sys.argv[1]
    ids = sys.argv[2:]
    here = os.path.dirname(os.path.dirname(os.path.abspath(__file__)))
    props = [json.loads(ln) for ln in open(os.path.join(here, "properties.jsonl"))]
    os.makedirs(base, exist_ok=True)
    for p in props:
        pid = p["id"]
        if ids and pid not in ids:
            continue
        w = f"{base}/{pid}"
        if not os.path.isdir(w):
            subprocess.run(["git", "-C", "/repo", "worktree", "add", "-q",
                            "--detach", w, "HEAD"], check=True)
        out = f"{base}/out-{pid}"
        os.makedirs(out, exist_ok=True)
        open(f"{out}/PROPERTY.txt", "w").write(
            f"Property {pid}: {p['title']}\n\nStatement: {p['statement']}\n\n"
            f"Quantifier: {p['quantifier']['text']}\n\nWhy tests cannot "
            f"settle it: {p['why_tests_cant']}\n\nAnchor files: "
            f"{', '.join(p['anchors']['files'])}\n")
        prior = []
        for d in sorted(glob.glob(os.path.join(here, "seeded", pid + "*"))
                        + glob.glob(os.path.join(here, "seeded",
                                                 "not-accepted", pid + "*"))):
            try:
                m = json.load(open(os.path.join(d, "meta.json")))
            except (OSError, ValueError):
                continue
            s = str(m.get("breaks") or m.get("summary", ""))[:420].replace("\n", " ")
            prior.append(f"   - {s}")
        open(f"{out}/PROMPT.txt", "w").write(
            BASE.replace("@PRIOR@", "\n".join(prior)).replace("@B@", base)
            .replace("@ID@", pid).replace("@TESTS@", T[pid]))
        print(pid, len(prior), "prior changes listed")


if __name__ == "__main__":
    main()
