#!/bin/bash
# tools/freecheck.sh <ID> [check ids...] : a sub-agent's variant that differs observably where the
# property leaves freedom must NOT alarm.
# - patch applies to a fresh scratch worktree of /repo HEAD
# - the agent's property test exits 0 on the variant and on /repo
# - the named checks (default: the property's own) exit 0 against the variant
ID="$1"; shift
CHECKS="${@:-$ID}"
OUT=${SEEDBASE:-/tmp/seed7}/out-$ID
W=/tmp/fr-$ID-$$
git -C /repo worktree add -q --detach "$W" HEAD || exit 3
trap 'git -C /repo worktree remove --force "$W" >/dev/null 2>&1' EXIT
git -C "$W" apply "$OUT/patch.diff" || { echo "PATCH DOES NOT APPLY"; exit 3; }
echo "--- files touched: $(git -C "$W" diff --stat | tail -1)"
if [ -z "${SKIP_PROPTEST:-}" ]; then
  (cd /tmp && PYTHONPATH="$W" NUMBA_CACHE_DIR="$W/.nbc" timeout 900 /venv/bin/python "$OUT/property_test.py" >/tmp/fr-test-$ID.log 2>&1); r1=$?
  (cd /tmp && PYTHONPATH=/repo NUMBA_CACHE_DIR=/tmp/fr-nbc0-$ID timeout 900 /venv/bin/python "$OUT/property_test.py" >/tmp/fr-test0-$ID.log 2>&1); r0=$?
  rm -rf /tmp/fr-nbc0-$ID
  echo "--- property test: variant rc=$r1, /repo rc=$r0 (want 0 0)"
fi
cd "$(dirname "$0")/.."
for C in $CHECKS; do
  out=$(VERIF_REPO="$W" VERIF_EVIDENCE_DIR=/tmp/fr-ev-$ID ./run.sh $C ${TIER:-quick} 2>&1); rc=$?
  echo "== check $C rc=$rc (want 0)"
  [ $rc -ne 0 ] && echo "$out" | grep -E "^(violation|INCONCLUSIVE|VIOLATION)" | head -6 | cut -c1-600
done
rm -rf /tmp/fr-ev-$ID
