#!/bin/bash
# tools/mutant.sh <patch.diff> <ID> [<ID> ...]   (env TIER=quick|thorough)
# Applies the patch to a scratch worktree of /repo (never to /repo itself),
# runs the given checks against it via VERIF_REPO, removes the worktree.
set -u
PATCH="$(readlink -f "$1")"; shift
W="/tmp/mw-$$"
git -C /repo worktree add -q --detach "$W" HEAD || exit 3
trap 'git -C /repo worktree remove --force "$W" >/dev/null 2>&1; rm -rf /verif/.nbcache/*-$TH 2>/dev/null' EXIT
if ! git -C "$W" apply "$PATCH"; then echo "PATCH DOES NOT APPLY"; exit 3; fi
TH=$(cd /verif && VERIF_REPO="$W" PYTHONPATH=/verif /venv/bin/python -c "from vlib.harness import tree_hash;print(tree_hash())")
rc_all=0
for ID in "$@"; do
  out=$(cd /verif && VERIF_REPO="$W" VERIF_EVIDENCE_DIR="$W/.ev" ./run.sh "$ID" "${TIER:-quick}" 2>&1)
  rc=$?
  echo "== $ID rc=$rc: $(echo "$out" | grep -E '^(VIOLATION|INCONCLUSIVE|KNOWN)' | head -3 | tr '\n' ' ')"
  echo "$out" | grep -E "^violation" | head -2 | cut -c1-300
  [ $rc -ne 0 ] && rc_all=1
done
exit $rc_all
