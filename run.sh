#!/bin/bash
# Dispatcher: ./run.sh <ID> [quick|thorough] [--replay <file>]
#             ./run.sh setup
# Everything runs with /venv/bin/python against /repo's current working tree.
set -u
HERE="$(cd "$(dirname "${BASH_SOURCE[0]}")" && pwd)"
cd "$HERE"
export VERIF_HOME="$HERE"
export VERIF_REPO="${VERIF_REPO:-/repo}"
export PYTHONPATH="$VERIF_REPO:$HERE${PYTHONPATH:+:$PYTHONPATH}"
export PYTHONHASHSEED=0
export PYTHONDONTWRITEBYTECODE=1
export PIP_NO_INDEX=1
export MPLBACKEND=Agg
PY=/venv/bin/python

ensure_deps() {
  if [ ! -f "$HERE/.deps/icontract/__init__.py" ]; then
    mkdir -p "$HERE/.deps"
    /venv/bin/pip install -q --no-index --find-links /opt/veriftools/wheels \
      --target "$HERE/.deps" icontract >/dev/null 2>&1 || \
      echo "WARN: could not install icontract into .deps" >&2
  fi
  mkdir -p "$HERE/.nbcache" "$HERE/.work" "$HERE/evidence" "$HERE/replays"
}

if [ "${1:-}" = "setup" ]; then
  ensure_deps
  exec $PY -m vlib.selftest
fi

ID="${1:?usage: run.sh <ID> [quick|thorough] [--replay file]}"
shift
TIER="${VERIF_TIER:-quick}"
if [ "${1:-}" = "quick" ] || [ "${1:-}" = "thorough" ]; then TIER="$1"; shift; fi
export VERIF_TIER="$TIER"
ensure_deps
exec $PY -m vlib.main "$ID" "$TIER" "$@"
