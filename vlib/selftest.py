"""Setup-time self test: the harness imports, the repository imports, and every
oracle agrees with the worked examples documented in the repository."""
import importlib
import pkgutil
import sys


def main() -> int:
    import moptipyapps  # noqa: F401
    import vlib.oracles as orc
    n = 0
    for m in pkgutil.iter_modules(orc.__path__):
        mod = importlib.import_module(f"vlib.oracles.{m.name}")
        st = getattr(mod, "selftest", None)
        if st is not None:
            st()
            n += 1
    print(f"setup ok: repo at {moptipyapps.__file__}; {n} oracle self-tests "
          "passed")
    return 0


if __name__ == "__main__":
    sys.exit(main())
