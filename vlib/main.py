"""Entry point: python -m vlib.main <ID> <tier> [--replay f | --shard spec --out f]."""
import sys

from vlib import harness


def main(argv: list[str]) -> int:
    pid, tier = argv[0], argv[1]
    rest = argv[2:]
    if "--shard" in rest:
        return harness.shard_main(pid, tier, rest[rest.index("--shard") + 1],
                                  rest[rest.index("--out") + 1])
    replay = None
    if "--replay" in rest:
        replay = rest[rest.index("--replay") + 1]
    return harness.run_check(pid, tier, replay)


if __name__ == "__main__":
    sys.exit(main(sys.argv[1:]))
