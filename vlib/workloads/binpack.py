"""Seeded generators of 2D bin-packing instances, permutations and layouts.

Instance descriptions are plain dicts (see vlib.oracles.packing); the real
objects are only built by make_real().  Generators keep the cost facts of
DESIGN.md section 0 in mind: the Instance constructor is pseudo-polynomial in
min(W, H) and in w//h of every item with min(w, h) >= 2.
"""
from __future__ import annotations

import itertools
from typing import Any

import numpy as np

CLASSES = ("tiny", "itembin", "forcedrot", "dtype", "general", "shipped",
           "unit")


def _name(rng) -> str:
    # half of the generated instances share one of four names: different
    # instances with the same name in one process are ordinary (users name
    # their instances), and anything cached per name must still be right
    k = int(rng.integers(6))
    if k < 2:
        return "v" + str(int(rng.integers(4)))
    if k == 2:
        # ... or the name of a shipped instance (tables keyed by name)
        return str(rng.choice(["a01", "a10", "beng01", "cl01_020_01",
                               "cl10_100_10"]))
    return "v" + format(int(rng.integers(0, 1 << 30)), "x")


_COUNT: list = [None]


def gen_instance(rng, cls: str) -> dict:
    """One instance description of the given class."""
    if cls == "tiny":
        W = int(rng.integers(1, 4))
        H = int(rng.integers(1, 4))
        k = int(rng.integers(1, 5))
        items = []
        for _ in range(k):
            w = int(rng.integers(1, max(W, H) + 1))
            h = int(rng.integers(1, min(W, H) + 1))
            if rng.integers(2):
                w, h = h, w
            items.append([w, h, int(rng.integers(1, 4))])
        return {"name": _name(rng), "W": W, "H": H, "items": items,
                "cls": cls}
    if cls == "itembin":
        W = int(rng.integers(1, 30))
        H = int(rng.integers(1, 30))
        items = [[W, H, int(rng.integers(1, 4))]]
        if rng.integers(2):
            items.append([H, W, int(rng.integers(1, 3))])
        for _ in range(int(rng.integers(0, 4))):
            w = int(rng.integers(1, W + 1))
            h = int(rng.integers(1, H + 1))
            items.append([w, h, int(rng.integers(1, 3))])
        return {"name": _name(rng), "W": W, "H": H, "items": items,
                "cls": cls}
    if cls == "forcedrot":
        # non-square bin; some items fit in one orientation only
        a = int(rng.integers(2, 40))
        b = int(rng.integers(1, a))
        W, H = (a, b) if rng.integers(2) else (b, a)
        items = []
        for _ in range(int(rng.integers(1, 8))):
            long_side = int(rng.integers(b + 1, a + 1))
            short = int(rng.integers(1, b + 1))
            w, h = (long_side, short) if rng.integers(2) else (short,
                                                                long_side)
            items.append([w, h, int(rng.integers(1, 4))])
        for _ in range(int(rng.integers(0, 5))):
            items.append([int(rng.integers(1, b + 1)),
                          int(rng.integers(1, b + 1)),
                          int(rng.integers(1, 3))])
        return {"name": _name(rng), "W": W, "H": H, "items": items,
                "cls": cls}
    if cls == "dtype":
        return _gen_dtype_boundary(rng)
    if cls == "count":
        # EVERY total item count from 5 to 150 in turn (not only the
        # windows around powers of two), two to four small item types
        if _COUNT[0] is None:
            _COUNT[0] = int(rng.integers(0, 146))
        _COUNT[0] = (_COUNT[0] + 1) % 146
        n = 5 + _COUNT[0]
        W = int(rng.integers(3, 13))
        H = int(rng.integers(3, 13))
        t = int(rng.integers(2, 5))
        cuts = sorted(int(v) for v in rng.choice(
            np.arange(1, n), t - 1, replace=False))
        reps = [b - a for a, b in zip([0] + cuts, cuts + [n])]
        items = [[int(rng.integers(1, min(4, W) + 1)),
                  int(rng.integers(1, min(4, H) + 1)), r] for r in reps]
        return {"name": _name(rng), "W": W, "H": H, "items": items,
                "cls": cls}
    if cls == "unit":
        # many unit items: n_items + 1 at the int8 edge, tiny bins
        n = int(rng.choice([125, 126, 127, 128, 129]))
        W = int(rng.integers(1, 12))
        H = int(rng.integers(1, 12))
        if rng.integers(2):
            items = [[1, 1, n]]
        else:
            a = int(rng.integers(1, n))
            items = [[1, 1, a], [1, min(2, max(W, H)), n - a]]
            if items[1][1] > min(W, H) and items[1][0] > min(W, H):
                items[1][1] = 1
        return {"name": _name(rng), "W": W, "H": H, "items": items,
                "cls": cls}
    if cls == "hugebin":
        # bin area 10^9 .. 10^17 with few small items: area-scaled objective
        # values beyond 2^53 (and, with enough bins, beyond 2^63)
        W = int(rng.choice([10 ** 9, 2 ** 31, 10 ** 10, 10 ** 11,
                            999_999_999_989, 10 ** 12]))
        H = int(rng.choice([1, 2, 7, 100, 1000, 1000, 10 ** 4, 10 ** 5]))
        if rng.integers(4) == 0:
            W, H = H, W
        items = []
        left = int(rng.choice([3, 10, 40, 100, 100, 250]))
        while left > 0:
            w = int(rng.integers(1, 6))
            h = int(rng.integers(1, min(min(W, H), 5) + 1))
            if w > W:
                w = W
            r = int(rng.integers(1, left + 1))
            same = [it for it in items if it[:2] in ([w, h], [h, w])]
            if same:
                same[0][2] += r     # same type again: more copies
            else:
                items.append([w, h, r])
            left -= r
        return {"name": _name(rng), "W": W, "H": H, "items": items,
                "cls": cls}
    if cls == "twins":
        # repeated items larger than half the bin in both dimensions (each
        # copy needs its own bin) plus fillers that fit beside / above them
        W = int(rng.integers(6, 21))
        H = int(rng.integers(6, 21))
        items = []
        for _ in range(int(rng.integers(1, 4))):
            w = int(rng.integers(W // 2 + 1, W + 1))
            h = int(rng.integers(H // 2 + 1, H + 1))
            items.append([w, h, int(rng.integers(2, 5))])
        for _ in range(int(rng.integers(1, 4))):
            if rng.integers(2):
                w = int(rng.integers(1, max(2, W // 2)))
                h = int(rng.integers(1, H + 1))
            else:
                w = int(rng.integers(1, W + 1))
                h = int(rng.integers(1, max(2, H // 2)))
            items.append([w, h, int(rng.integers(1, 5))])
        order = [int(i) for i in rng.permutation(len(items))]
        return {"name": _name(rng), "W": W, "H": H,
                "items": [items[i] for i in order], "cls": cls}
    if cls == "general":
        W = int(rng.integers(2, 120))
        H = int(rng.integers(2, 120))
        k = int(rng.integers(1, 12))
        items = []
        big = rng.integers(3)
        for _ in range(k):
            if big == 0:
                w = int(rng.integers(1, W + 1))
                h = int(rng.integers(1, H + 1))
            elif big == 1:
                w = int(rng.integers(1, max(2, W // 3)))
                h = int(rng.integers(1, max(2, H // 3)))
            else:
                w = int(rng.integers(max(1, W // 3), W + 1))
                h = int(rng.integers(max(1, H // 3), H + 1))
            if rng.integers(4) == 0 and h <= W and w <= H:
                w, h = h, w
            items.append([w, h, int(rng.integers(1, 5))])
        return {"name": _name(rng), "W": W, "H": H, "items": items,
                "cls": cls}
    raise ValueError(cls)


def _gen_dtype_boundary(rng) -> dict:
    """Long-thin instances whose max_dim + max_size + 1 sits at a type edge."""
    edge = int(rng.choice([127, 32767, 2147483647]))
    target = edge + int(rng.integers(-2, 3))       # max_dim+max_size+1
    s = target - 1
    long_bin = (s + 1) // 2 + int(rng.integers(0, 2))
    max_item = s - long_bin
    if max_item > long_bin:
        long_bin, max_item = max_item, long_bin
    if max_item < 1:
        max_item = 1
    short = int(rng.integers(1, 4))
    horizontal = bool(rng.integers(2))
    W, H = (long_bin, short) if horizontal else (short, long_bin)
    items = []
    # the long item: (max_item x 1), possibly given in rotated form
    it = [max_item, 1] if rng.integers(2) else [1, max_item]
    items.append([it[0], it[1], int(rng.integers(1, 3))])
    for _ in range(int(rng.integers(0, 5))):
        ln = int(rng.integers(1, max_item + 1))
        if rng.integers(2):
            ln = max(1, max_item - int(rng.integers(0, 3)))
        it = [ln, 1] if rng.integers(2) else [1, ln]
        items.append([it[0], it[1], int(rng.integers(1, 4))])
    for _ in range(int(rng.integers(0, 3))):
        items.append([int(rng.integers(1, short + 1)),
                      int(rng.integers(1, short + 1)),
                      int(rng.integers(1, 3))])
    return {"name": _name(rng), "W": W, "H": H, "items": items,
            "cls": "dtype", "edge": edge, "target": target}


_SMALL_SHIPPED = None


def shipped_names() -> tuple[str, ...]:
    from moptipyapps.binpacking2d.instance import Instance
    return Instance.list_resources()


def shipped_desc(name: str) -> dict:
    from moptipyapps.binpacking2d.instance import Instance
    inst = Instance.from_resource(name)
    return desc_of(inst, "shipped")


def desc_of(inst, cls: str = "real") -> dict:
    return {"name": inst.name, "W": int(inst.bin_width),
            "H": int(inst.bin_height),
            "items": [[int(v) for v in row] for row in np.asarray(inst)],
            "cls": cls}


def make_real(desc: dict):
    from moptipyapps.binpacking2d.instance import Instance
    if desc.get("cls") == "shipped":
        return Instance.from_resource(desc["name"])
    import time
    t0 = time.time()
    inst = Instance(desc["name"], desc["W"], desc["H"],
                    [list(r) for r in desc["items"]])
    # every other (cheap) instance is built a second time from an ndarray
    # that already has the storage type the instance selects, and the
    # caller then re-uses that buffer: "the matrix will be copied"
    _ALIAS[0] += 1
    if _ALIAS[0] % 2 == 0 and time.time() - t0 < 0.05:
        # ... in the storage type itself, or in the narrowest signed /
        # unsigned type that holds the item data (often narrower than what
        # the instance needs for its packings)
        mx = max(max(r) for r in desc["items"])
        kind = (_ALIAS[0] // 2) % 3
        if kind == 0:
            dt = inst.dtype
        elif kind == 1:
            dt = next(t for t in (np.int8, np.int16, np.int32, np.int64)
                      if mx <= np.iinfo(t).max)
        else:
            dt = next(t for t in (np.uint8, np.uint16, np.uint32, np.uint64)
                      if mx <= np.iinfo(t).max)
        arr = np.array(desc["items"], dtype=dt)
        if rng_free_choice(_ALIAS[0]):
            arr = np.asfortranarray(arr)
        inst = Instance(desc["name"], desc["W"], desc["H"], arr)
        arr[:, :] = 1           # the caller's buffer lives on
        ALIAS_BUILT[0] += 1
    elif _ALIAS[0] % 8 == 3 and time.time() - t0 < 0.05:
        # the matrix argument is itself an Instance - one that was built
        # for OTHER items of the same count and total area (another aspect
        # ratio of one type) and then overwritten in place with this data:
        # whatever that object remembers about itself is stale
        W, H = desc["W"], desc["H"]
        if max(W, H) > 4096:
            return inst
        other = [list(r) for r in desc["items"]]
        for r in other:
            a = r[0] * r[1]
            alts = [(w, a // w) for w in range(1, max(W, H) + 1)
                    if a % w == 0 and (w, a // w) != (r[0], r[1])
                    and (w, a // w) != (r[1], r[0])
                    and ((w <= W and a // w <= H) or (w <= H and a // w <= W))]
            if alts:
                r[0], r[1] = alts[(_ALIAS[0] // 8) % len(alts)]
                break
        else:
            return inst
        try:
            src = Instance(desc["name"] + "o", W, H, other)
        except ValueError:
            return inst
        if int(np.iinfo(src.dtype).max) >= max(max(r) for r in desc["items"]):
            src[:, :] = np.array(desc["items"])
            inst = Instance(desc["name"], W, H, src)
            src[:, :] = 1
            STALE_BUILT[0] += 1
    return inst


_ALIAS = [0]
ALIAS_BUILT = [0]
STALE_BUILT = [0]


def rng_free_choice(k: int) -> bool:
    return (k // 2) % 3 == 0


def outside_domain(desc: dict) -> bool:
    """Does the description violate what the Instance constructor documents
    (sizes 1..max bin side, every item fits in some orientation, counts in
    range)? Then - and only then - a ValueError from the constructor is a
    correct rejection; decided on the input, not on the message's wording."""
    try:
        W, H = int(desc["W"]), int(desc["H"])
        if not (1 <= W <= 10 ** 12 and 1 <= H <= 10 ** 12):
            return True
        mx, mn = max(W, H), min(W, H)
        items = desc["items"]
        if not 1 <= len(items) <= 10 ** 8:
            return True
        total = 0
        for w, h, r in items:
            if not (1 <= w <= mx and 1 <= h <= mx and 1 <= r <= 10 ** 8):
                return True
            if w > mn and h > mn:
                return True
            total += r
        return not total <= 10 ** 12
    except (KeyError, TypeError, ValueError):
        return True


def n_items(desc: dict) -> int:
    return sum(r[2] for r in desc["items"])


def base_sequence(desc: dict) -> list[int]:
    out: list[int] = []
    for i, r in enumerate(desc["items"], 1):
        out.extend([i] * r[2])
    return out


PERM_KINDS = ("random", "sorted", "reversed", "plain", "negated", "bigfirst",
              "smallfirst", "runs")


def gen_perm(rng, desc: dict, kind: str) -> list[int]:
    seq = base_sequence(desc)
    if kind == "sorted":
        return seq
    if kind == "reversed":
        return seq[::-1]
    if kind == "negated":
        p = list(seq)
        rng.shuffle(p)
        return [-v for v in p]
    if kind == "plain":
        p = list(seq)
        rng.shuffle(p)
        return p
    if kind == "runs":
        # copies of one item type stay adjacent in one or two runs, each run
        # with one orientation
        runs = []
        for i, r in enumerate(desc["items"], 1):
            cut = int(rng.integers(0, r[2] + 1)) if r[2] > 1 else 0
            for ln in (cut, r[2] - cut):
                if ln:
                    runs.append([(-i if rng.integers(3) == 0 else i)] * ln)
        out: list[int] = []
        for j in rng.permutation(len(runs)):
            out.extend(runs[int(j)])
        return out
    if kind in ("bigfirst", "smallfirst"):
        key = {i: r[0] * r[1] for i, r in enumerate(desc["items"], 1)}
        p = sorted(seq, key=lambda i: key[i], reverse=(kind == "bigfirst"))
        return [(-v if rng.integers(2) else v) for v in p]
    p = list(seq)
    rng.shuffle(p)
    return [(-v if rng.integers(2) else v) for v in p]


def all_signed_perms(desc: dict):
    """All distinct signed permutations with repetition (n_items <= 5)."""
    seq = base_sequence(desc)
    seen = set()
    for p in itertools.permutations(seq):
        if p in seen:
            continue
        seen.add(p)
        for signs in itertools.product((1, -1), repeat=len(p)):
            yield [a * s for a, s in zip(p, signs)]


def rows_of(y) -> list[list[int]]:
    return [[int(v) for v in row] for row in np.asarray(y)]


def x_array(perm: list[int], inst) -> np.ndarray:
    return np.array(perm, dtype=inst.dtype)


_XBUF: dict = {}


def x_buffer(perm: list[int], inst) -> np.ndarray:
    """The permutation in a buffer that is re-used (overwritten in place) for
    all points of the same length and type, as optimisers do. Only for
    callers that use the array at once."""
    key = (len(perm), str(inst.dtype))
    b = _XBUF.get(key)
    if b is None:
        if len(_XBUF) > 64:
            _XBUF.clear()
        b = _XBUF[key] = np.empty(len(perm), dtype=inst.dtype)
    b[:] = perm
    return b


# --------------------------------------------------------------------------
# feasible layouts that the decoders cannot produce
def layout_variants(rng, desc: dict, rows: list[list[int]]):
    """Yield (tag, rows) of feasible variations of a feasible packing.

    Every yielded layout is re-judged by the oracle by the caller; these
    operators only *aim* at feasibility.
    """
    W, H = desc["W"], desc["H"]
    n = len(rows)
    k = max(r[1] for r in rows)
    # row shuffle
    idx = list(range(n))
    rng.shuffle(idx)
    yield "shuffle", [list(rows[i]) for i in idx]
    # bin relabel (random permutation of bin ids)
    if k > 1:
        perm = list(range(1, k + 1))
        rng.shuffle(perm)
        yield "relabel", [[r[0], perm[r[1] - 1]] + list(r[2:]) for r in rows]
        # fullest bin last
        cnt = {}
        for r in rows:
            cnt[r[1]] = cnt.get(r[1], 0) + 1
        order = sorted(cnt, key=lambda b: cnt[b])
        m = {b: i + 1 for i, b in enumerate(order)}
        yield "fullestlast", [[r[0], m[r[1]]] + list(r[2:]) for r in rows]
        order.reverse()
        m = {b: i + 1 for i, b in enumerate(order)}
        yield "sparsestlast", [[r[0], m[r[1]]] + list(r[2:]) for r in rows]
    # mirror x / mirror y / both
    yield "mirrorx", [[r[0], r[1], W - r[4], r[3], W - r[2], r[5]]
                      for r in rows]
    yield "mirrory", [[r[0], r[1], r[2], H - r[5], r[4], H - r[3]]
                      for r in rows]
    # own bin for the last item / for a random item
    if k < n:
        j = int(rng.integers(n))
        # only if its bin has another item (else gap)
        same = [r for r in rows if r[1] == rows[j][1]]
        if len(same) > 1:
            rr = [list(r) for r in rows]
            w, h = rr[j][4] - rr[j][2], rr[j][5] - rr[j][3]
            rr[j] = [rr[j][0], k + 1, 0, 0, w, h]
            yield "ownbin", rr
    # every item its own bin (k = n)
    if n <= 130:
        rr = []
        for i, r in enumerate(rows):
            w, h = r[4] - r[2], r[5] - r[3]
            rr.append([r[0], i + 1, 0, 0, w, h])
        yield "allown", rr
    # lift one item into free space (random shift that keeps feasibility is
    # decided by the oracle)
    j = int(rng.integers(n))
    rr = [list(r) for r in rows]
    dx = int(rng.integers(-3, 4))
    dy = int(rng.integers(0, 4))
    rr[j][2] += dx
    rr[j][4] += dx
    rr[j][3] += dy
    rr[j][5] += dy
    yield "lift", rr
    # rotate an item in place
    j = int(rng.integers(n))
    rr = [list(r) for r in rows]
    w, h = rr[j][4] - rr[j][2], rr[j][5] - rr[j][3]
    rr[j][4] = rr[j][2] + h
    rr[j][5] = rr[j][3] + w
    yield "rotate", rr


def random_placement(rng, desc: dict, tries: int = 60):
    """Random non-overlapping placement by rejection (small grids).

    Returns rows or None.
    """
    W, H = desc["W"], desc["H"]
    seq = base_sequence(desc)
    rng.shuffle(seq)
    bins: list[list[list[int]]] = []
    rows = []
    for iid in seq:
        w, h, _ = desc["items"][iid - 1]
        placed = False
        for _ in range(tries):
            ww, hh = (w, h) if rng.integers(2) else (h, w)
            if ww > W or hh > H:
                ww, hh = hh, ww
            if ww > W or hh > H:
                return None
            b = int(rng.integers(0, len(bins) + 1))
            x = int(rng.integers(0, W - ww + 1))
            y = int(rng.integers(0, H - hh + 1))
            if b == len(bins):
                bins.append([])
            ok = True
            for r in bins[b]:
                if r[2] < x + ww and r[4] > x and r[3] < y + hh and r[5] > y:
                    ok = False
                    break
            if ok:
                row = [iid, b + 1, x, y, x + ww, y + hh]
                bins[b].append(row)
                rows.append(row)
                placed = True
                break
            if not bins[-1]:
                bins.pop()
        if not placed:
            if bins and not bins[-1]:
                bins.pop()
            ww, hh = (w, h) if (w <= W and h <= H) else (h, w)
            row = [iid, len(bins) + 1, 0, 0, ww, hh]
            bins.append([row])
            rows.append(row)
    # compact bin ids (an empty trailing bin may have been left)
    used = sorted({r[1] for r in rows})
    m = {b: i + 1 for i, b in enumerate(used)}
    return [[r[0], m[r[1]]] + r[2:] for r in rows]


_AUTO = object()


def to_packing(inst, rows, n_bins: Any = _AUTO):
    """Build a real Packing object from rows (dtype of the instance)."""
    from moptipyapps.binpacking2d.packing import Packing
    y = Packing(inst)
    arr = np.array(rows, dtype=np.int64).reshape((-1, 6))
    if arr.shape != y.shape:
        raise ValueError("shape")
    info = np.iinfo(y.dtype)
    if arr.min() < info.min or arr.max() > info.max:
        raise OverflowError("value does not fit the packing dtype")
    y[:, :] = arr
    y.n_bins = (max(int(r[1]) for r in rows) if n_bins is _AUTO else n_bins)
    return y
