"""The same matrix in another memory layout - the caller's business, never
the callee's: C order, Fortran order, transposed view, strided view of a
larger buffer, negatively strided view."""
from __future__ import annotations

import numpy as np

LAYOUTS = ("C", "F", "T-view", "strided", "reversed")


def relayout(arr: np.ndarray, layout: str) -> np.ndarray:
    if layout == "F":
        return np.asfortranarray(arr)
    if layout == "T-view":
        return np.ascontiguousarray(arr.T).T
    if layout == "strided":
        r, c = arr.shape
        big = np.zeros((2 * r, 3 * c), dtype=arr.dtype)
        big[::2, 1::3] = arr
        return big[::2, 1::3]
    if layout == "reversed":
        return np.ascontiguousarray(arr[::-1, ::-1])[::-1, ::-1]
    return arr
