"""A million times slower machine.

Runs that are budgeted in objective function evaluations must give the same
result on any machine. moptipy enforces wall-clock limits with a
`threading.Timer` looked up in `moptipy.api._process_base`. Inside
:func:`slow_machine` such a timer fires after a millionth of its interval -
what the same run sees on a machine that is a million times slower (or that
was suspended). (The clock the processes read for their log time stamps is
left alone: several modules hold their own reference to it.) A run without wall-clock
limits is not touched at all; `seen` counts the limits that were set."""
from __future__ import annotations

import contextlib
import threading

FACTOR = 1_000_000


class Seen:
    def __init__(self):
        self.timers = 0


@contextlib.contextmanager
def slow_machine(factor: int = FACTOR):
    import moptipy.api._process_base as pb
    seen = Seen()
    old_timer = pb.Timer

    def warped_timer(interval, function, *a, **k):
        seen.timers += 1
        return threading.Timer(interval / factor, function, *a, **k)

    pb.Timer = warped_timer
    try:
        yield seen
    finally:
        pb.Timer = old_timer
