"""pytest plugin: run the repository's own tests / examples as a workload with
the harness' process-wide postconditions installed (VERIF_SUITE_MON = comma
list of domains), recording counters and violations to VERIF_SUITE_OUT."""
from __future__ import annotations

import json
import os
import sys
import traceback

_STATE = {"counters": {}, "violations": [], "errors": [],
          "plugin_errors": []}


class SuiteCtx:
    def count(self, name, k=1):
        c = _STATE["counters"]
        c[name] = c.get(name, 0) + k

    def case(self):
        self.count("suite_cases")

    def nontrivial(self, *a):
        pass

    def seen_max(self, *a):
        pass

    def sample(self, *a):
        pass

    def violation(self, mech, what, case):
        v = _STATE["violations"]
        self.count("violations_raw")
        if sum(1 for q in v if q["mech"] == mech) < 3:
            v.append({"mech": mech, "what": what, "case": case,
                      "test": os.environ.get("PYTEST_CURRENT_TEST", "")})


def pytest_configure(config):
    home = os.environ["VERIF_HOME"]
    deps = os.path.join(home, ".deps")
    if deps not in sys.path:
        sys.path.append(deps)
    from vlib.monitors.domain_contracts import DomainMonitor
    try:
        DomainMonitor(SuiteCtx()).install(
            [w for w in os.environ.get("VERIF_SUITE_MON", "").split(",")
             if w])
    except Exception:  # noqa: BLE001
        _STATE["plugin_errors"].append(traceback.format_exc())


def pytest_runtest_logreport(report):
    if report.when == "call":
        c = _STATE["counters"]
        k = "suite_tests_" + report.outcome
        c[k] = c.get(k, 0) + 1
        if report.outcome == "failed":
            loc = getattr(report, "location", None) or ("?", 0, "?")
            _STATE["errors"].append(
                f"{os.path.basename(str(loc[0]))}::{loc[2]}: "
                f"{str(report.longrepr)[-1500:]}")


def pytest_sessionfinish(session, exitstatus):
    out = os.environ.get("VERIF_SUITE_OUT")
    if out:
        with open(out, "w") as f:
            json.dump(_STATE, f)
