"""IndexSpy: an ndarray subclass that records every scalar index it sees.

Used in the `py` engine (NUMBA_DISABLE_JIT=1), where the repository's kernels
run as plain Python on the arrays they are given. numpy itself raises
IndexError for an index outside [-n, n); the spy adds the *evidence*: per
label and axis the extreme indices seen against the size, how often a
negative (wrap-around) index was used, and it flags any index outside
[-n, n) itself before numpy does.
"""
from __future__ import annotations

import numpy as np

LOG: dict[str, dict] = {}
CURRENT = {"kernel": "?"}


class OutOfBounds(IndexError):
    pass


def _rec(label: str, axis: int, idx: int, n: int) -> None:
    key = f"{CURRENT['kernel']}:{label}[axis{axis}]"
    e = LOG.get(key)
    if e is None:
        e = LOG[key] = {"min": idx, "max": idx, "size_at_max": n,
                        "size_at_min": n, "accesses": 0, "negative": 0,
                        "hit_last": 0, "hit_first": 0, "oob": 0}
    e["accesses"] += 1
    if idx < e["min"]:
        e["min"] = idx
        e["size_at_min"] = n
    if idx > e["max"] or (idx == e["max"] and n < e["size_at_max"]):
        e["max"] = idx
        e["size_at_max"] = n
    if idx < 0:
        e["negative"] += 1
    if idx == n - 1 or idx == -1:
        e["hit_last"] += 1
    if idx == 0 or idx == -n:
        e["hit_first"] += 1
    if idx >= n or idx < -n:
        e["oob"] += 1
        raise OutOfBounds(
            f"{key}: index {idx} outside array of size {n}")


class IndexSpy(np.ndarray):
    """ndarray view that logs scalar indices."""

    _label = "?"

    def __array_finalize__(self, obj):
        if obj is not None:
            self._label = getattr(obj, "_label", "?")

    def _note(self, idx):
        if not isinstance(idx, tuple):
            idx = (idx,)
        ax = 0
        for it in idx:
            if it is None or it is Ellipsis:
                if it is Ellipsis:
                    return
                continue
            if isinstance(it, (int, np.integer)) and not isinstance(
                    it, (bool, np.bool_)):
                if ax < self.ndim:
                    _rec(self._label, ax, int(it), self.shape[ax])
            ax += 1

    def __iter__(self):
        # iteration is index 0..len-1 by construction; without this the
        # sequence protocol would probe index len to find the end
        for i in range(self.shape[0]):
            yield self[i]

    def __getitem__(self, idx):
        self._note(idx)
        r = super().__getitem__(idx)
        if isinstance(r, np.ndarray) and r.ndim == 0:
            return r[()]
        if isinstance(r, IndexSpy) and r.ndim > 0:
            return r
        if isinstance(r, np.generic):
            return r
        return r

    def __setitem__(self, idx, value):
        self._note(idx)
        super().__setitem__(idx, value)


def spy(a: np.ndarray, label: str) -> IndexSpy:
    v = np.asarray(a).view(IndexSpy)
    v._label = label
    return v


def kernel(name: str) -> None:
    CURRENT["kernel"] = name


def summary() -> dict:
    return {k: dict(v) for k, v in sorted(LOG.items())}
