"""State-diff tracer for InstanceDecoder.decode (sys.monitoring LINE events).

Observes the local list `items` of the running decode() after every line and
classifies each change as

  split  - one side of one item reduced and a new item appended that tiles
           the old one together with it,
  shrink - one side of one item reduced, nothing appended (slack cut),
  end    - the merge phase begins (sort / multiplicities), tracking stops.

From these transitions it maintains a geometric layout: every item is a
rectangle inside one of the `min_bins` bins - a witness packing of the
generated instance in exactly `min_bins` bins. Nothing in /repo is edited.
"""
from __future__ import annotations

import sys

TOOL_ID = 3   # sys.monitoring tool id (0..5); 3 and 4 are unnamed
LINE_BUDGET = 3_000_000   # logical step bound for one decode() call


class DecodeBudgetExceeded(Exception):
    """Raised from the LINE callback: bounded progress was not made."""


class Trace:
    def __init__(self, W: int, H: int, n_bins: int) -> None:
        self.W, self.H = W, H
        # layout[i] = [bin, x, y, w, h] for items[i]
        self.layout = [[b + 1, 0, 0, W, H] for b in range(n_bins)]
        self.prev: list[tuple[int, ...]] | None = None
        self.pending = None      # (index, dim, old, new)
        self.events = {"split": 0, "shrink": 0, "lines": 0}
        self.state = "tracking"   # tracking | ended | lost
        self.why_lost = ""
        self.total_lines = 0

    def _close_pending(self) -> None:
        if self.pending is not None:
            k, d, old, new = self.pending
            self.layout[k][3 + d] = new          # shrink keeps the origin
            self.events["shrink"] += 1
            self.pending = None

    def lose(self, why: str) -> None:
        if self.state == "tracking":
            self.state = "lost"
            self.why_lost = why

    def observe(self, items) -> None:
        if self.state != "tracking" or items is None:
            return
        self.events["lines"] += 1
        try:
            cur = [tuple(int(v) for v in it) for it in items]
        except Exception:  # noqa
            return
        prev = self.prev
        self.prev = cur
        if prev is None:
            if len(cur) != len(self.layout) or any(
                    c != (self.W, self.H) for c in cur):
                self.lose("initial items are not min_bins bin-sized items")
            return
        if cur == prev:
            return
        if any(len(c) != 2 for c in cur):
            self._close_pending()
            self.state = "ended"
            return
        if len(cur) == len(prev) + 1 and cur[:-1] == prev:
            new = cur[-1]
            if self.pending is None:
                self.lose("item appended without a preceding reduction")
                return
            k, d, old, nw = self.pending
            if new[d] != old - nw or new[1 - d] != prev[k][1 - d]:
                self.lose("appended item does not tile the reduced one")
                return
            lay = self.layout[k]
            lay[3 + d] = nw
            nl = list(lay)
            nl[1 + d] = lay[1 + d] + nw
            nl[3 + d] = old - nw
            self.layout.append(nl)
            self.pending = None
            self.events["split"] += 1
            return
        if len(cur) == len(prev):
            diff = [i for i in range(len(cur)) if cur[i] != prev[i]]
            if len(diff) == 1:
                k = diff[0]
                dims = [d for d in (0, 1) if cur[k][d] != prev[k][d]]
                if len(dims) == 1 and 0 < cur[k][dims[0]] < prev[k][dims[0]]:
                    self._close_pending()
                    self.pending = (k, dims[0], prev[k][dims[0]],
                                    cur[k][dims[0]])
                    return
            # many items changed: the list was sorted -> merge phase
            if sorted(cur) == sorted(prev):
                self._close_pending()
                self.state = "ended"
                return
            self.lose("unclassifiable change of the item list")
            return
        if len(cur) < len(prev):
            self._close_pending()
            self.state = "ended"
            return
        self.lose("unclassifiable change of the item list")

    def finish(self) -> None:
        self._close_pending()
        if self.state == "tracking":
            self.state = "ended"

    def rects(self):
        """[(bin, l, b, r, t)] of the witness layout."""
        return [(b, x, y, x + w, y + h) for b, x, y, w, h in self.layout]


class DecodeTracer:
    """Installs LINE monitoring on one code object."""

    def __init__(self, code) -> None:
        self.code = code
        self.active: Trace | None = None
        self.available = hasattr(sys, "monitoring")
        self.installed = False

    def install(self) -> bool:
        if not self.available or self.installed:
            return self.installed
        mon = sys.monitoring
        try:
            mon.use_tool_id(TOOL_ID, "verif-decode-tracer")
        except ValueError:
            return False
        mon.register_callback(TOOL_ID, mon.events.LINE, self._on_line)
        mon.set_local_events(TOOL_ID, self.code, mon.events.LINE)
        self.installed = True
        return True

    def _on_line(self, code, line):
        tr = self.active
        if tr is None or code is not self.code:
            return
        tr.total_lines += 1
        if tr.total_lines > LINE_BUDGET:
            raise DecodeBudgetExceeded(
                f"decode() executed more than {LINE_BUDGET} lines")
        try:
            fr = sys._getframe(1)
            if fr.f_code is not self.code:
                return
            tr.observe(fr.f_locals.get("items"))
        except Exception:  # noqa  (the monitor must never disturb the code)
            tr.lose("tracer exception")

    def begin(self, W, H, n_bins) -> Trace:
        self.active = Trace(W, H, n_bins)
        return self.active

    def end(self) -> Trace | None:
        tr = self.active
        self.active = None
        if tr is not None:
            tr.finish()
        return tr
