"""State-diff tracer for InstanceDecoder.decode (sys.monitoring LINE events).

Observes, after every line executed in any function of the decoder's module,
the local value that holds the item collection - recognised by its documented
starting state (min_bins bin-sized items), either as a list of [w, h] pairs or
as two parallel lists of widths and heights, under whatever name - and
classifies each change between consistent snapshots as

  split  - one side of one item reduced and a new item appended that tiles
           the old one together with it,
  shrink - one side of one item reduced, nothing appended (slack cut),
  end    - the merge phase begins (sort / multiplicities), tracking stops.

(in either order of the two writes). If no such collection is ever seen the
trace stays `unseen`, if a change cannot be explained it is `lost`; both mean
"this monitor has nothing to say about this decoder", never a verdict.
From these transitions it maintains a geometric layout: every item is a
rectangle inside one of the `min_bins` bins - a witness packing of the
generated instance in exactly `min_bins` bins. Nothing in /repo is edited.
"""
from __future__ import annotations

import sys

TOOL_ID = 3   # sys.monitoring tool id (0..5); 3 and 4 are unnamed
LINE_BUDGET = 3_000_000   # logical step bound for one decode() call


class DecodeBudgetExceeded(Exception):
    """Raised from the LINE callback: bounded progress was not made."""


def _pairs_of(v):
    """The item list a local value may hold, as [(w, h), ...]:
    - a list of two-element int lists/tuples, or
    - two parallel int lists (widths, heights) held in one tuple/list.
    Returns (reading, pairs); pairs is None while the value is transiently
    inconsistent (parallel lists of different lengths)."""
    out = []
    t = type(v)
    if t is list and v and all(type(e) in (list, tuple) and len(e) == 2
                               for e in v):
        try:
            out.append(("pairs", [(int(a), int(b)) for a, b in v]))
        except Exception:  # noqa
            pass
    if t in (tuple, list) and len(v) == 2 and type(v[0]) is list \
            and type(v[1]) is list and v[0] and all(
                type(e) is int for e in v[0]) and all(
                type(e) is int for e in v[1]):
        if len(v[0]) == len(v[1]):
            out.append(("parallel", list(zip(v[0], v[1]))))
        else:
            out.append(("parallel", None))
    return out


def _explain(B, C):
    """How snapshot C follows from snapshot B by at most one cut."""
    if C == B:
        return ("same",)
    if len(C) == len(B):
        diff = [i for i in range(len(C)) if C[i] != B[i]]
        if len(diff) == 1:
            k = diff[0]
            dims = [d for d in (0, 1) if C[k][d] != B[k][d]]
            if len(dims) == 1 and 0 < C[k][dims[0]] < B[k][dims[0]]:
                return ("shrink", k, dims[0], C[k][dims[0]])
        return None
    if len(C) == len(B) + 1:
        head, new = C[:-1], C[-1]
        diff = [i for i in range(len(B)) if head[i] != B[i]]
        if not diff:
            return ("append-only",)
        if len(diff) == 1:
            k = diff[0]
            for d in (0, 1):
                if head[k][1 - d] == B[k][1 - d] == new[1 - d] \
                        and head[k][d] > 0 and new[d] > 0 \
                        and head[k][d] + new[d] == B[k][d]:
                    return ("split", k, d, head[k][d], new[d])
    return None


class Trace:
    """States: unseen (no item collection was ever recognised - nothing can
    be said), tracking, ended (witness layout complete), lost."""

    def __init__(self, W: int, H: int, n_bins: int) -> None:
        self.W, self.H = W, H
        # layout[i] = [bin, x, y, w, h] for item i
        self.layout = [[b + 1, 0, 0, W, H] for b in range(n_bins)]
        self.base: list[tuple[int, int]] | None = None   # accepted snapshot
        self.pre: list[tuple[int, int]] | None = None    # before pending
        self.pending = None      # (index, dim, new) shrink not yet final
        self.reading: str | None = None
        self.held = 0
        self.events = {"split": 0, "shrink": 0, "lines": 0}
        self.state = "unseen"
        self.why_lost = ""
        self.total_lines = 0

    def _close_pending(self) -> None:
        if self.pending is not None:
            k, d, new = self.pending
            self.layout[k][3 + d] = new          # shrink keeps the origin
            self.events["shrink"] += 1
            self.pending = None
            self.pre = None

    def _apply_split(self, k, d, keep, rest) -> None:
        lay = self.layout[k]
        lay[3 + d] = keep
        nl = list(lay)
        nl[1 + d] = lay[1 + d] + keep
        nl[3 + d] = rest
        self.layout.append(nl)
        self.events["split"] += 1

    def lose(self, why: str) -> None:
        if self.state in ("tracking", "unseen"):
            self.state = "lost"
            self.why_lost = why

    def observe_locals(self, loc) -> None:
        if self.state not in ("tracking", "unseen"):
            return
        vals = []
        if "items" in loc:
            vals.append(loc["items"])
        vals.extend(v for k, v in loc.items() if k != "items")
        for v in vals:
            if type(v) not in (list, tuple):
                continue
            for reading, pairs in _pairs_of(v):
                if self.reading is None:
                    # the collection is recognised by its documented start:
                    # min_bins bin-sized items
                    if pairs is not None and len(pairs) == len(self.layout) \
                            and all(c == (self.W, self.H) for c in pairs):
                        self.reading = reading
                        self.state = "tracking"
                        self.base = pairs
                        self.events["lines"] += 1
                        return
                    continue
                if reading != self.reading:
                    continue
                if pairs is None:
                    return           # transiently inconsistent
                self.observe(pairs)
                return

    def observe(self, cur) -> None:
        if self.state != "tracking":
            return
        self.events["lines"] += 1
        base = self.base
        if cur == base:
            return
        if self.pending is not None:
            e = _explain(self.pre, cur)
            if e is not None and e[0] == "split":
                self.pending = None
                self.pre = None
                self._apply_split(*e[1:])
                self.base = cur
                self.held = 0
                return
        e = _explain(base, cur)
        if e is None or e[0] == "append-only":
            # merge phase (sorted / shortened) or a transient state
            if len(cur) < len(base) or (len(cur) == len(base)
                                        and sorted(cur) == sorted(base)):
                self._close_pending()
                self.state = "ended"
                return
            self.held += 1
            if self.held > 8:
                self.lose("unclassifiable change of the item collection")
            return
        self.held = 0
        if e[0] == "shrink":
            self._close_pending()
            self.pre = base
            self.pending = (e[1], e[2], e[3])
            self.base = cur
        elif e[0] == "split":
            self._close_pending()
            self._apply_split(*e[1:])
            self.base = cur

    def finish(self) -> None:
        if self.state == "tracking":
            if self.held:
                self.lose("decode returned in an unexplained state of the "
                          "item collection")
                return
            self._close_pending()
            self.state = "ended"

    def rects(self):
        """[(bin, l, b, r, t)] of the witness layout."""
        return [(b, x, y, x + w, y + h) for b, x, y, w, h in self.layout]


def _codes_of(module) -> set:
    """All code objects whose source is the module's file."""
    import types
    fn = getattr(module, "__file__", None)
    seen: set = set()

    def walk(code):
        if code in seen or code.co_filename != fn:
            return
        seen.add(code)
        for c in code.co_consts:
            if isinstance(c, types.CodeType):
                walk(c)

    def visit(obj):
        f = getattr(obj, "__func__", obj)
        f = getattr(f, "__wrapped__", f)
        c = getattr(f, "__code__", None)
        if isinstance(c, types.CodeType):
            walk(c)

    for v in list(vars(module).values()):
        if isinstance(v, type) and getattr(v, "__module__", None) == \
                module.__name__:
            for u in list(vars(v).values()):
                visit(u)
        else:
            visit(v)
    return seen


class DecodeTracer:
    """Installs LINE monitoring on one code object."""

    def __init__(self, code, module=None) -> None:
        self.code = code
        #: every code object defined in the decoder's module: the item
        #: collection may live in helper functions of a restructured decoder
        self.codes = {code}
        if module is not None:
            self.codes |= _codes_of(module)
        self.active: Trace | None = None
        self.available = hasattr(sys, "monitoring")
        self.installed = False

    def install(self) -> bool:
        if not self.available or self.installed:
            return self.installed
        mon = sys.monitoring
        try:
            mon.use_tool_id(TOOL_ID, "verif-decode-tracer")
        except ValueError:
            return False
        mon.register_callback(TOOL_ID, mon.events.LINE, self._on_line)
        for c in self.codes:
            mon.set_local_events(TOOL_ID, c, mon.events.LINE)
        self.installed = True
        return True

    def _on_line(self, code, line):
        tr = self.active
        if tr is None or code not in self.codes:
            return
        tr.total_lines += 1
        if tr.total_lines > LINE_BUDGET:
            raise DecodeBudgetExceeded(
                f"decode() executed more than {LINE_BUDGET} lines")
        try:
            fr = sys._getframe(1)
            if fr.f_code is not code:
                return
            tr.observe_locals(fr.f_locals)
        except Exception:  # noqa  (the monitor must never disturb the code)
            tr.lose("tracer exception")

    def begin(self, W, H, n_bins) -> Trace:
        self.active = Trace(W, H, n_bins)
        return self.active

    def end(self) -> Trace | None:
        tr = self.active
        self.active = None
        if tr is not None:
            tr.finish()
        return tr
