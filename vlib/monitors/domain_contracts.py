"""Process-wide postconditions on the real TSP / TTP / QAP / packing-space
classes, for workloads that the harness does not generate itself (the
repository's own tests and examples run under `suite_plugin`).

Every condition records into a ctx-like object (count / violation) and lets
the observed call return what it returned: the workload is never aborted.
Cases are self-contained (`kind` = "suite:<what>") and `replay_case` drives
the real code again from the recorded data with the same condition installed.
"""
from __future__ import annotations

import functools
from typing import Any

import numpy as np

from vlib.oracles import ttp as ot


def _ints2(a) -> list[list[int]]:
    return [[int(v) for v in row] for row in np.asarray(a)]


def _ttp_cfg(inst) -> tuple:
    return (int(inst.rounds), int(inst.home_streak_min),
            int(inst.home_streak_max), int(inst.away_streak_min),
            int(inst.away_streak_max), int(inst.separation_min),
            int(inst.separation_max))


class DomainMonitor:
    def __init__(self, ctx) -> None:
        self.ctx = ctx
        self.installed: set[str] = set()

    # -- TSP ----------------------------------------------------------------
    def tsp_post(self, obj, x, result) -> None:
        ctx = self.ctx
        ctx.count("contract_tour_length_calls")
        inst = obj.instance
        n = int(inst.n_cities)
        t = [int(v) for v in x]
        if sorted(t) != list(range(n)):
            ctx.count("contract_tour_length_not_a_permutation_skipped")
            return
        m = np.asarray(inst)
        want = sum(int(m[t[k - 1], t[k]]) for k in range(n))
        ctx.count("contract_tour_length_evaluated")
        if result != want or isinstance(result, bool):
            ctx.violation(
                "tour-length-differs",
                f"TourLength.evaluate = {result!r}, cyclic edge sum of the "
                f"stored matrix = {want} (n={n}, dtype {inst.dtype})",
                {"kind": "suite:tsp", "matrix": _ints2(m), "tour": t})
        lb, ub = obj.lower_bound(), obj.upper_bound()
        if not lb <= want <= ub:
            ctx.violation(
                "tour-outside-derived-bounds",
                f"tour length {want} not in [{lb}, {ub}] (instance "
                f"{inst.name})",
                {"kind": "suite:tsp", "matrix": _ints2(m), "tour": t,
                 "name": str(inst.name)})

    # -- QAP ----------------------------------------------------------------
    def qap_post(self, obj, x, result) -> None:
        ctx = self.ctx
        ctx.count("contract_qap_calls")
        inst = obj.instance
        n = int(inst.n)
        p = [int(v) for v in x]
        if sorted(p) != list(range(n)):
            ctx.count("contract_qap_not_a_permutation_skipped")
            return
        F, D = _ints2(inst.flows), _ints2(inst.distances)
        want = sum(F[i][j] * D[p[i]][p[j]] for i in range(n)
                   for j in range(n))
        ctx.count("contract_qap_evaluated")
        case = {"kind": "suite:qap", "F": F, "D": D, "perm": p}
        if result != want or isinstance(result, bool):
            ctx.violation("qap-value-differs",
                          f"QAPObjective.evaluate = {result!r}, flow-distance "
                          f"sum = {want} (n={n})", case)
        if not obj.lower_bound() <= want <= obj.upper_bound():
            ctx.violation("qap-value-outside-bounds",
                          f"{want} not in [{obj.lower_bound()}, "
                          f"{obj.upper_bound()}]", case)

    # -- TTP ----------------------------------------------------------------
    def ttp_errors_post(self, obj, x, result) -> None:
        ctx = self.ctx
        ctx.count("contract_errors_calls")
        inst = obj.instance
        n = int(inst.n_cities)
        plan = _ints2(x)
        cfg = _ttp_cfg(inst)
        case = {"kind": "suite:ttp-errors", "n": n, "cfg": list(cfg),
                "matrix": _ints2(inst), "plan": plan}
        if any(abs(v) > n for day in plan for v in day):
            ctx.count("contract_errors_out_of_range_skipped")
            return
        why = ot.infeasibility(plan, cfg)
        ctx.count("contract_errors_evaluated")
        if (why is None) != (result == 0) or isinstance(result, bool):
            ctx.violation(
                "zero-iff-feasible",
                f"Errors.evaluate = {result!r} but the schedule is "
                f"{'feasible' if why is None else 'infeasible: ' + why}",
                case)
        if why is None:
            ctx.count("contract_errors_feasible_plans")
        want = ot.error_count_with_byes(plan, cfg)
        if want is not None:
            ctx.count("contract_errors_exact_compared")
            if result != want:
                ctx.violation("error-count-differs",
                              f"Errors.evaluate = {result}, documented count "
                              f"= {want}", case)
        ub = obj.upper_bound()
        if not 0 <= result <= ub:
            ctx.violation("error-count-outside-bounds",
                          f"{result} not in [0, {ub}]", case)

    def ttp_length_post(self, obj, x, result) -> None:
        ctx = self.ctx
        ctx.count("contract_plan_length_calls")
        inst = obj.instance
        n = int(inst.n_cities)
        plan = _ints2(x)
        if any(abs(v) > n for day in plan for v in day) or any(
                abs(v) - 1 == a for day in plan for a, v in enumerate(day)
                if v):
            ctx.count("contract_plan_length_malformed_skipped")
            return
        dist = _ints2(inst)
        want = ot.plan_length(dist, plan)
        ctx.count("contract_plan_length_evaluated")
        if any(v == 0 for day in plan for v in day):
            ctx.count("contract_plan_length_with_byes")
        case = {"kind": "suite:ttp-length", "n": n,
                "cfg": list(_ttp_cfg(inst)), "matrix": dist, "plan": plan}
        if result != want or isinstance(result, bool):
            ctx.violation("plan-length-differs",
                          f"GamePlanLength.evaluate = {result!r}, tournament "
                          f"model = {want}", case)

    def ttp_decode_post(self, x, y) -> None:
        """map_games(x, y): y holds the earliest-slot schedule of x."""
        from checks import C15
        ctx = self.ctx
        ctx.count("contract_map_games_calls")
        days, n = int(y.shape[0]), int(y.shape[1])
        perm = [int(v) for v in x]
        want, _ = C15.model_decode(n, days, perm)
        got = _ints2(y)
        ctx.count("contract_map_games_evaluated")
        if got != want:
            ctx.violation("decode-differs-from-earliest-slot-model",
                          f"map_games differs from the earliest-slot model "
                          f"(n={n}, days={days})",
                          {"kind": "suite:ttp-decode", "n": n, "days": days,
                           "perm": perm})

    # -- packing space ------------------------------------------------------
    def packing_validate_post(self, space, y, exc) -> None:
        from vlib.monitors.packing_contracts import desc_for
        from vlib.oracles import packing as po
        from vlib.workloads import binpack as wb
        from moptipyapps.binpacking2d.packing import Packing
        ctx = self.ctx
        ctx.count("contract_validate_calls")
        if not isinstance(y, Packing) or y.instance is not space.instance:
            ctx.count("contract_validate_foreign_object_skipped")
            return
        desc = desc_for(space.instance)
        rows = wb.rows_of(y)
        try:
            k = int(y.n_bins)
        except Exception:  # noqa: BLE001
            ctx.count("contract_validate_no_bin_count_skipped")
            return
        reason = po.infeasibility(desc, rows, k)
        ctx.count("contract_validate_evaluated")
        accepted = exc is None
        if accepted and reason is not None:
            ctx.violation("accepted-infeasible",
                          f"PackingSpace.validate accepted: {reason}",
                          {"kind": "suite:validate", "desc": desc,
                           "rows": rows, "n_bins": k})
        if not accepted and reason is None and isinstance(
                exc, (ValueError, TypeError)):
            ctx.violation("rejected-feasible",
                          f"PackingSpace.validate raised {exc!r} for a "
                          f"feasible packing",
                          {"kind": "suite:validate", "desc": desc,
                           "rows": rows, "n_bins": k})
        ctx.count("contract_validate_accepted" if accepted
                  else "contract_validate_rejected")

    # -- installation ---------------------------------------------------------
    def _wrap_eval(self, cls, post) -> None:
        orig = cls.evaluate

        @functools.wraps(orig)
        def evaluate(obj, x):
            result = orig(obj, x)
            post(obj, x, result)
            return result
        cls.evaluate = evaluate

    def install(self, which) -> None:
        for w in which:
            if w in self.installed:
                continue
            self.installed.add(w)
            getattr(self, "_install_" + w)()

    def _install_tsp(self) -> None:
        from moptipyapps.tsp.tour_length import TourLength
        self._wrap_eval(TourLength, self.tsp_post)

    def _install_qap(self) -> None:
        from moptipyapps.qap.objective import QAPObjective
        self._wrap_eval(QAPObjective, self.qap_post)

    def _install_ttp(self) -> None:
        import moptipyapps.ttp.game_encoding as ge
        from moptipyapps.ttp.errors import Errors
        from moptipyapps.ttp.plan_length import GamePlanLength
        self._wrap_eval(Errors, self.ttp_errors_post)
        self._wrap_eval(GamePlanLength, self.ttp_length_post)
        orig = ge.map_games
        mon = self

        def map_games(x, y):
            r = orig(x, y)
            mon.ttp_decode_post(x, y)
            return r
        ge.map_games = map_games

    def _install_packing(self) -> None:
        from vlib.monitors.packing_contracts import PackingMonitor

        from moptipyapps.binpacking2d.packing_space import PackingSpace
        self.packing = PackingMonitor(self.ctx, judge_lower_bound=True)
        self.packing.install()
        orig = PackingSpace.validate
        mon = self

        @functools.wraps(orig)
        def validate(space, x):
            try:
                orig(space, x)
            except Exception as e:  # noqa: BLE001
                mon.packing_validate_post(space, x, e)
                raise
            mon.packing_validate_post(space, x, None)
        PackingSpace.validate = validate


DOMAINS = ("packing", "tsp", "ttp", "qap")


def replay_case(ctx, case: dict[str, Any]) -> None:
    """Drive the real code again from a `suite:*` case, monitors installed."""
    kind = case["kind"]
    mon = DomainMonitor(ctx)
    if kind == "suite:tsp":
        from moptipy.spaces.permutations import Permutations

        from moptipyapps.tsp.instance import Instance
        from moptipyapps.tsp.tour_length import TourLength
        m = np.array(case["matrix"], np.int64)
        inst = Instance(case.get("name", "replay"), 0, m)
        x = Permutations.standard(len(m)).create()
        x[:] = case["tour"]
        mon.tsp_post(TourLength(inst), x, TourLength(inst).evaluate(x))
    elif kind == "suite:qap":
        from moptipy.spaces.permutations import Permutations

        from moptipyapps.qap.instance import Instance
        from moptipyapps.qap.objective import QAPObjective
        inst = Instance(np.array(case["D"], np.int64),
                        np.array(case["F"], np.int64))
        x = Permutations.standard(inst.n).create()
        x[:] = case["perm"]
        o = QAPObjective(inst)
        mon.qap_post(o, x, o.evaluate(x))
    elif kind in ("suite:ttp-errors", "suite:ttp-length"):
        from checks import C07

        from moptipyapps.ttp.errors import Errors
        from moptipyapps.ttp.game_plan_space import GamePlanSpace
        from moptipyapps.ttp.plan_length import GamePlanLength
        inst = C07.make_instance(case["n"], tuple(case["cfg"]),
                                 case["matrix"])
        y = GamePlanSpace(inst).create()
        y[:, :] = case["plan"]
        if kind == "suite:ttp-errors":
            o = Errors(inst)
            mon.ttp_errors_post(o, y, o.evaluate(y))
        else:
            o = GamePlanLength(inst)
            mon.ttp_length_post(o, y, o.evaluate(y))
    elif kind == "suite:ttp-decode":
        from moptipyapps.ttp.game_encoding import map_games
        n, days = case["n"], case["days"]
        x = np.array(case["perm"], np.int64)
        y = np.zeros((days, n), np.int64)
        map_games(x, y)
        mon.ttp_decode_post(x, y)
    elif kind == "suite:validate":
        from vlib.workloads import binpack as wb

        from moptipyapps.binpacking2d.packing_space import PackingSpace
        inst = wb.make_real(case["desc"])
        space = PackingSpace(inst)
        y = wb.to_packing(inst, case["rows"], case["n_bins"])
        try:
            space.validate(y)
            exc = None
        except Exception as e:  # noqa: BLE001
            exc = e
        mon.packing_validate_post(space, y, exc)
    else:
        raise ValueError(f"unknown suite case kind {kind!r}")
