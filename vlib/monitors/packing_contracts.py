"""icontract postconditions on the real bin-packing encodings / objectives.

Installed by re-binding class attributes from the harness; nothing in /repo is
edited. Conditions record into the Ctx and return True so that the observed
workload is never aborted.
"""
from __future__ import annotations

import re
import weakref
from typing import Any

import numpy as np

from vlib.oracles import packing as po
from vlib.workloads import binpack as wb

INT64_MAX = 2 ** 63 - 1

_DESC_CACHE: dict[int, tuple[Any, dict]] = {}


def desc_for(inst) -> dict:
    # (weak references: a monitor must not keep the observed objects alive -
    # lifetimes, and with them addresses, are part of what can go wrong)
    key = id(inst)
    hit = _DESC_CACHE.get(key)
    if hit is not None and hit[0]() is inst:
        return hit[1]
    d = wb.desc_of(inst, "live")
    if len(_DESC_CACHE) > 2000:
        _DESC_CACHE.clear()
    try:
        _DESC_CACHE[key] = (weakref.ref(inst), d)
    except TypeError:
        pass
    return d


OBJECTIVE_CLASSES = (
    ("binCount", "moptipyapps.binpacking2d.objectives.bin_count", "BinCount"),
    ("binCountAndLastEmpty",
     "moptipyapps.binpacking2d.objectives.bin_count_and_last_empty",
     "BinCountAndLastEmpty"),
    ("binCountAndEmpty",
     "moptipyapps.binpacking2d.objectives.bin_count_and_empty",
     "BinCountAndEmpty"),
    ("binCountAndLastSmall",
     "moptipyapps.binpacking2d.objectives.bin_count_and_last_small",
     "BinCountAndLastSmall"),
    ("binCountAndSmall",
     "moptipyapps.binpacking2d.objectives.bin_count_and_small",
     "BinCountAndSmall"),
    ("binCountAndLastSkyline",
     "moptipyapps.binpacking2d.objectives.bin_count_and_last_skyline",
     "BinCountAndLastSkyline"),
    ("binCountAndLowestSkyline",
     "moptipyapps.binpacking2d.objectives.bin_count_and_lowest_skyline",
     "BinCountAndLowestSkyline"),
)


def objective_classes() -> dict[str, type]:
    import importlib
    out = {}
    for key, modname, cls in OBJECTIVE_CLASSES:
        out[key] = getattr(importlib.import_module(modname), cls)
    return out


class PackingMonitor:
    """Process-wide postconditions; `current` is the driver's replay case."""

    def __init__(self, ctx, judge_lower_bound: bool = False,
                 sample: bool = False) -> None:
        self.ctx = ctx
        self.current: Any = None
        self.judge_lower_bound = judge_lower_bound
        self.sample = sample
        self.calls = 0
        self.installed = False

    def _take(self) -> bool:
        self.calls += 1
        if not self.sample:
            return True
        return self.calls <= 200 or self.calls % 50 == 0

    # -- conditions -------------------------------------------------------
    def decode_post(self, enc_name: str, x, y) -> bool:
        ctx = self.ctx
        ctx.count("contract_decode_calls")
        if not self._take():
            return True
        ctx.count("contract_decode_evaluated")
        inst = y.instance
        desc = desc_for(inst)
        rows = wb.rows_of(y)
        reason = po.infeasibility(desc, rows, y.n_bins)
        if reason is not None:
            ctx.violation(
                "decoded-infeasible:" + re.sub(r"\d+", "#", reason)[:50],
                f"{enc_name}.decode produced an infeasible packing: {reason}",
                self.current if self.current is not None else
                {"kind": "decode", "desc": desc,
                 "perm": [int(v) for v in x], "enc": enc_name})
        elif self.judge_lower_bound:
            ctx.count("contract_lower_bound_evaluated")
            if y.n_bins < inst.lower_bound_bins:
                ctx.violation(
                    "packing-below-lower-bound",
                    f"{enc_name}.decode packed into {y.n_bins} bins, below "
                    f"lower_bound_bins={inst.lower_bound_bins}",
                    {"kind": "decode", "desc": desc,
                     "perm": [int(v) for v in x], "enc": enc_name})
        return True

    def eval_post(self, key: str, obj, y, result) -> bool:
        ctx = self.ctx
        ctx.count("contract_evaluate_calls")
        if not self._take():
            return True
        from moptipyapps.binpacking2d.packing import Packing
        if not isinstance(y, Packing):
            return True
        desc = desc_for(y.instance)
        rows = wb.rows_of(y)
        if po.infeasibility(desc, rows, y.n_bins) is not None:
            ctx.count("contract_evaluate_on_infeasible_skipped")
            return True
        ctx.count("contract_evaluate_evaluated")
        want = po.objective_values(desc, rows)[key]
        if result != want or isinstance(result, bool):
            ctx.violation(
                (f"objective-value-beyond-int64:{key}" if want > INT64_MAX
                 else f"objective-value:{key}"),
                f"{key}.evaluate returned {result}, documented value {want}",
                {"kind": "objective", "desc": desc, "rows": rows,
                 "objective": key})
        return True

    # -- installation -----------------------------------------------------
    def install(self, objectives: bool = True) -> None:
        import icontract

        from moptipyapps.binpacking2d.encodings.ibl_encoding_1 import (
            ImprovedBottomLeftEncoding1 as E1,
        )
        from moptipyapps.binpacking2d.encodings.ibl_encoding_2 import (
            ImprovedBottomLeftEncoding2 as E2,
        )
        if self.installed:
            return
        self.installed = True
        mon = self

        class ContractBroken(Exception):
            pass

        def mk_decode(name):
            def post(x, y):
                return mon.decode_post(name, x, y)
            return post

        for cls, name in ((E1, "ibf1"), (E2, "ibf2")):
            cls._verif_orig_decode = cls.decode   # for multi-thread drivers
            cls.decode = icontract.ensure(
                mk_decode(name), error=ContractBroken)(cls.decode)
        if objectives:
            for key, cls in objective_classes().items():
                def mk(k):
                    def post(self, x, result):
                        return mon.eval_post(k, self, x, result)
                    return post
                cls._verif_orig_evaluate = cls.evaluate   # multi-thread use
                cls.evaluate = icontract.ensure(
                    mk(key), error=ContractBroken)(cls.evaluate)


def dtype_ok(inst, desc) -> str | None:
    """Instance(...).dtype postcondition from the property text."""
    if not np.issubdtype(inst.dtype, np.signedinteger):
        return f"dtype {inst.dtype} is not a signed integer type"
    mx = int(np.iinfo(inst.dtype).max)
    side = max(max(r[0], r[1]) for r in desc["items"])
    need = max(max(desc["W"], desc["H"]) + side, wb.n_items(desc) + 1)
    if mx < need:
        return f"dtype {inst.dtype} (max {mx}) cannot hold {need}"
    return None
