"""Harness: seeds, tiers, shards, engines, evidence, replay, known findings.

A check module (checks/Cxx.py) provides

    PID = "Cxx"
    RULE = "how cases are generated and what counts as non-trivial"
    LEVEL_ASSUMPTIONS = [...]
    REQUIRED = {"counter name": minimum, ...}   # below => inconclusive
    def plan(tier, seed) -> list of shard dicts
        {"name": str, "engine": "jit"|"bc"|"py", "args": {...}, "timeout": s}
    def run_shard(ctx, args) -> None
    def replay(ctx, case) -> None     # re-executes one witness case

Everything observable goes through the Ctx object.
"""
from __future__ import annotations

import hashlib
import json
import os
import shutil
import subprocess
import sys
import time
import traceback
from collections import Counter
from pathlib import Path
from typing import Any

HOME = Path(os.environ.get("VERIF_HOME", Path(__file__).resolve().parent.parent))
REPO = Path(os.environ.get("VERIF_REPO", "/repo"))
PY = "/venv/bin/python"
NCPU = int(os.environ.get("VERIF_NCPU", "16"))
CRASH_SIGNALS = {-11: "SIGSEGV", -7: "SIGBUS", -4: "SIGILL", -8: "SIGFPE",
                 -6: "SIGABRT"}


# --------------------------------------------------------------------------
def tree_hash() -> str:
    """Hash of all python sources of the repository's working tree."""
    h = hashlib.sha1()
    files = sorted(list((REPO / "moptipyapps").rglob("*.py")))
    for f in files:
        h.update(str(f.relative_to(REPO)).encode())
        h.update(b"\0")
        h.update(f.read_bytes())
        h.update(b"\0")
    return h.hexdigest()[:16]


def engine_env(engine: str, thash: str | None = None) -> dict[str, str]:
    """Environment of a (sub)process for one execution engine."""
    env = dict(os.environ)
    env["VERIF_ENGINE"] = engine
    env.pop("NUMBA_BOUNDSCHECK", None)
    env.pop("NUMBA_DISABLE_JIT", None)
    if thash is None:
        thash = tree_hash()
    cache = HOME / ".nbcache" / f"{engine}-{thash}"
    env.pop("PYTHONOPTIMIZE", None)
    if engine == "jit":
        env["NUMBA_CACHE_DIR"] = str(cache)
    elif engine == "opt":
        # the same code in an interpreter started with -O (assert statements
        # and `if __debug__:` blocks are compiled away)
        env["PYTHONOPTIMIZE"] = "1"
        env["NUMBA_CACHE_DIR"] = str(cache)
    elif engine == "bc":
        env["NUMBA_BOUNDSCHECK"] = "1"
        env["NUMBA_CACHE_DIR"] = str(cache)
    elif engine == "py":
        env["NUMBA_DISABLE_JIT"] = "1"
        env["NUMBA_CACHE_DIR"] = str(cache)
    else:
        raise ValueError(engine)
    return env


def prune_caches(thash: str) -> None:
    base = HOME / ".nbcache"
    if not base.is_dir():
        return
    now = time.time()
    for d in base.iterdir():
        # other trees' caches (mutants, older commits) go after six hours
        if d.is_dir() and not d.name.endswith(thash) \
                and now - d.stat().st_mtime > 6 * 3600:
            shutil.rmtree(d, ignore_errors=True)


def jsonable(o: Any) -> Any:
    """Convert numpy things into plain JSON."""
    import numpy as np
    if isinstance(o, dict):
        return {str(k): jsonable(v) for k, v in o.items()}
    if isinstance(o, (list, tuple, set, frozenset)):
        return [jsonable(v) for v in o]
    if isinstance(o, np.ndarray):
        return jsonable(o.tolist())
    if isinstance(o, np.integer):
        return int(o)
    if isinstance(o, np.floating):
        return float_json(float(o))
    if isinstance(o, np.bool_):
        return bool(o)
    if isinstance(o, float):
        return float_json(o)
    if isinstance(o, (str, int, bool)) or o is None:
        return o
    return repr(o)


def float_json(f: float) -> Any:
    import math
    if math.isfinite(f):
        return f
    return repr(f)


def case_hash(*parts: Any) -> str:
    h = hashlib.blake2b(digest_size=8)
    h.update(json.dumps(jsonable(parts), sort_keys=True,
                        separators=(",", ":")).encode())
    return h.hexdigest()


# --------------------------------------------------------------------------
class Ctx:
    """What a shard sees: rng, counters, violation sink."""

    MAX_WITNESS_PER_MECH = 2

    def __init__(self, pid: str, tier: str, seed: int, shard_idx: int,
                 name: str, engine: str) -> None:
        import numpy as np
        self.pid = pid
        self.tier = tier
        self.seed = seed
        self.shard_idx = shard_idx
        self.name = name
        self.engine = engine
        self.rng = np.random.default_rng([seed, shard_idx, int(pid[1:])])
        self.counters: Counter[str] = Counter()
        self.maxima: dict[str, Any] = {}
        self.minima: dict[str, Any] = {}
        self.evaluations = 0
        self.nt: set[int] = set()   # 64-bit case hashes
        self.samples: list[Any] = []
        self.violations: list[dict] = []
        self._mech_count: Counter[str] = Counter()
        self.inconclusive: list[str] = []
        self.notes: list[str] = []
        self.exhaustive: list[str] = []
        self.extra: dict[str, Any] = {}
        self.t0 = time.time()

    # -- observation -------------------------------------------------------
    def case(self, n: int = 1) -> None:
        self.evaluations += n

    def count(self, key: str, n: int = 1) -> None:
        self.counters[key] += n

    def seen_max(self, key: str, v: Any) -> None:
        if key not in self.maxima or v > self.maxima[key]:
            self.maxima[key] = v

    def seen_min(self, key: str, v: Any) -> None:
        if key not in self.minima or v < self.minima[key]:
            self.minima[key] = v

    def nontrivial(self, *parts: Any) -> None:
        self.nt.add(int(case_hash(*parts), 16))

    def nontrivial_hash(self, h: str) -> None:
        self.nt.add(int(h, 16))

    def sample(self, obj: Any, limit: int = 3) -> None:
        if len(self.samples) < limit:
            self.samples.append(jsonable(obj))

    def note(self, s: str) -> None:
        if s not in self.notes and len(self.notes) < 50:
            self.notes.append(s)

    def mark_exhaustive(self, what: str) -> None:
        if what not in self.exhaustive:
            self.exhaustive.append(what)

    # -- verdicts ----------------------------------------------------------
    def violation(self, mech: str, what: str, case: Any) -> None:
        """Record a violation.

        mech: mechanism key (stable, no random values) used to match known
        findings; what: human text; case: JSON-able replay description.
        """
        self.counters["violations_raw"] += 1
        self.counters[f"violation[{mech}]"] += 1
        self._mech_count[mech] += 1
        if self._mech_count[mech] <= self.MAX_WITNESS_PER_MECH:
            self.violations.append({
                "property": self.pid, "mech": mech, "what": what,
                "engine": self.engine, "seed": self.seed,
                "shard": self.name, "case": jsonable(case)})

    def inconclusive_because(self, why: str) -> None:
        if len(self.inconclusive) < 20:
            self.inconclusive.append(why)

    def elapsed(self) -> float:
        return time.time() - self.t0

    def shard_replay_case(self, **info: Any) -> dict:
        """A replay description that re-runs this whole shard (same seed)."""
        return {"kind": "__shard__", "idx": self.shard_idx,
                "spec": getattr(self, "spec", {}), "info": jsonable(info)}

    def result(self) -> dict:
        return {
            "name": self.name, "engine": self.engine,
            "evaluations": self.evaluations,
            "counters": dict(self.counters),
            "maxima": jsonable(self.maxima), "minima": jsonable(self.minima),
            "nt": [], "nt_count": len(self.nt), "samples": self.samples,
            "violations": self.violations,
            "inconclusive": self.inconclusive, "notes": self.notes,
            "exhaustive": self.exhaustive,
            "extra": jsonable(self.extra),
            "wall_s": round(self.elapsed(), 2)}


# --------------------------------------------------------------------------
def load_known() -> list[dict]:
    f = HOME / "known_findings.json"
    if not f.is_file():
        return []
    return json.loads(f.read_text()).get("findings", [])


def _run_shard_subprocess(pid: str, tier: str, seed: int, idx: int,
                          shard: dict, thash: str, workdir: Path):
    spec = workdir / f"{pid}-{idx}.spec.json"
    out = workdir / f"{pid}-{idx}.out.json"
    if out.exists():
        out.unlink()
    spec.write_text(json.dumps({"idx": idx, **shard}))
    env = engine_env(shard.get("engine", "jit"), thash)
    # numba's on-disk cache is not safe for concurrent writers (two processes
    # can pick the same data-file name for different signatures, after which
    # the index hands out the wrong machine code): one directory per shard,
    # used by one process at a time (locked in shard_main)
    env["NUMBA_CACHE_DIR"] = os.path.join(
        env["NUMBA_CACHE_DIR"], f"{pid}-{shard.get('name', idx)}")
    env["VERIF_SEED"] = str(seed)
    cmd = [PY, "-m", "vlib.main", pid, tier, "--shard", str(spec),
           "--out", str(out)]
    log = workdir / f"{pid}-{idx}.log"
    with open(log, "w") as lf:
        proc = subprocess.Popen(cmd, env=env, cwd=str(HOME), stdout=lf,
                                stderr=subprocess.STDOUT, text=True)
    proc.logfile = log  # type: ignore
    return proc, spec, out


def run_check(pid: str, tier: str, replay: str | None = None) -> int:
    import importlib
    mod = importlib.import_module(f"checks.{pid}")
    seed = int(os.environ.get("VERIF_SEED", "1"))
    thash = tree_hash()
    prune_caches(thash)
    workdir = HOME / ".work" / f"{pid}-{os.getpid()}"
    workdir.mkdir(parents=True, exist_ok=True)
    t0 = time.time()
    try:
        if replay is not None:
            return _replay(mod, pid, tier, seed, replay, thash, workdir)
        return _run(mod, pid, tier, seed, thash, workdir, t0)
    finally:
        shutil.rmtree(workdir, ignore_errors=True)


def _replay(mod, pid, tier, seed, replay, thash, workdir) -> int:
    w = json.loads(Path(replay).read_text())
    if isinstance(w["case"], dict) and w["case"].get("kind") == "__shard__":
        shard = dict(w["case"]["spec"])
        sidx = w["case"]["idx"]
    else:
        shard = {"name": "replay", "engine": w.get("engine", "jit"),
                 "replay_case": w["case"], "args": {}}
        sidx = 0
    proc, _, out = _run_shard_subprocess(pid, tier, w.get("seed", seed),
                                         sidx, shard, thash, workdir)
    proc.wait(timeout=7200)
    sys.stdout.write(proc.logfile.read_text(errors="replace")[-6000:])
    if proc.returncode in CRASH_SIGNALS:
        print(f"replayed: process killed by {CRASH_SIGNALS[proc.returncode]}")
        print(f"VIOLATION property={pid} replay={replay}")
        return 1
    if not out.is_file():
        print(f"INCONCLUSIVE property={pid} replay shard produced no result")
        return 2
    res = json.loads(out.read_text())
    if res["violations"]:
        for v in res["violations"]:
            print(f"replayed: mech={v['mech']} {v['what']}")
        print(f"VIOLATION property={pid} replay={replay}")
        return 1
    print(f"replay of {replay}: no violation on this tree")
    return 0


def _run(mod, pid, tier, seed, thash, workdir, t0) -> int:
    shards = mod.plan(tier, seed)
    pending = list(enumerate(shards))
    running: list = []
    results: list[dict] = []
    inconclusive: list[str] = []
    crash_violations: list[dict] = []
    idx_of = {id(sh): i for i, sh in enumerate(shards)}
    # a cold numba cache: let the first shard of each engine go first alone
    # is not worth the latency; shards simply compile in parallel.
    while pending or running:
        while pending and len(running) < NCPU:
            idx, sh = pending.pop(0)
            proc, spec, out = _run_shard_subprocess(
                pid, tier, seed, idx, sh, thash, workdir)
            running.append((proc, sh, out, time.time()))
        time.sleep(0.05)
        still = []
        for proc, sh, out, ts in running:
            rc = proc.poll()
            tmo = sh.get("timeout", 1800)
            if rc is None:
                if time.time() - ts > tmo:
                    proc.kill()
                    proc.wait()
                    inconclusive.append(
                        f"shard {sh['name']} hit the wall-clock watchdog "
                        f"({tmo}s)")
                else:
                    still.append((proc, sh, out, ts))
                continue
            txt = proc.logfile.read_text(errors="replace")
            if out.is_file():
                try:
                    res_ = json.loads(out.read_text())
                    res_["nt_file"] = str(out) + ".nt.npy"
                    results.append(res_)
                except Exception as e:  # noqa
                    inconclusive.append(
                        f"shard {sh['name']}: unreadable result ({e})")
            else:
                tail = "\n".join(txt.strip().splitlines()[-25:])
                if rc in CRASH_SIGNALS:
                    # the interpreter running the real code was killed by a
                    # memory fault: an observed violation, replayable by
                    # re-running the shard
                    crash_violations.append({
                        "property": pid,
                        "mech": f"process-crash:{CRASH_SIGNALS[rc]}",
                        "what": f"shard {sh['name']} was killed by "
                                f"{CRASH_SIGNALS[rc]} while running the "
                                f"workload:\n{tail[-1500:]}",
                        "engine": sh.get("engine", "jit"), "seed": seed,
                        "shard": sh["name"],
                        "case": {"kind": "__shard__", "idx": idx_of[id(sh)],
                                 "spec": sh}})
                else:
                    inconclusive.append(
                        f"shard {sh['name']} died rc={rc} without result:"
                        f"\n{tail}")
        running = still

    # ---- merge -----------------------------------------------------------
    counters: Counter[str] = Counter()
    maxima: dict[str, Any] = {}
    minima: dict[str, Any] = {}
    nt_parts: list = []
    samples: list = []
    violations: list[dict] = list(crash_violations)
    notes: list[str] = []
    exhaustive: list[str] = []
    evaluations = 0
    per_shard = []
    extras: dict[str, Any] = {}
    for r in results:
        if r.get("extra"):
            extras[r["name"]] = r["extra"]
        evaluations += r["evaluations"]
        counters.update(r["counters"])
        for k, v in r["maxima"].items():
            if k not in maxima or v > maxima[k]:
                maxima[k] = v
        for k, v in r["minima"].items():
            if k not in minima or v < minima[k]:
                minima[k] = v
        if r.get("nt_file") and os.path.isfile(r["nt_file"]):
            import numpy as np
            nt_parts.append(np.load(r["nt_file"]))
        for s in r["samples"]:
            if len(samples) < 6:
                samples.append(s)
        violations.extend(r["violations"])
        inconclusive.extend(f"{r['name']}: {w}" for w in r["inconclusive"])
        for n in r["notes"]:
            if n not in notes:
                notes.append(n)
        for n in r["exhaustive"]:
            if n not in exhaustive:
                exhaustive.append(n)
        per_shard.append({"name": r["name"], "engine": r["engine"],
                          "evaluations": r["evaluations"],
                          "wall_s": r["wall_s"]})

    if nt_parts:
        import numpy as np
        n_distinct = int(np.unique(np.concatenate(nt_parts)).size)
    else:
        n_distinct = 0
    del nt_parts

    required = getattr(mod, "REQUIRED", {})
    req = required(tier) if callable(required) else required
    for k, mn in req.items():
        if counters.get(k, 0) < mn:
            inconclusive.append(
                f"monitor counter {k!r} = {counters.get(k, 0)} < {mn}: the "
                "deciding monitor was not reached often enough")

    # ---- classify violations --------------------------------------------
    known = [k for k in load_known()
             if k.get("property") == pid and k.get("status") == "known"]
    known_keys = {k["key"]: k for k in known}
    real: list[dict] = []
    known_hit: dict[str, dict] = {}
    for v in violations:
        if v["mech"] in known_keys:
            known_hit.setdefault(v["mech"], v)
        else:
            real.append(v)

    rpdir = (Path(os.environ["VERIF_EVIDENCE_DIR"]) / "replays"
             if "VERIF_EVIDENCE_DIR" in os.environ else HOME / "replays")
    rpdir.mkdir(parents=True, exist_ok=True)
    rc = 0
    for key, v in known_hit.items():
        print(f"KNOWN-FINDING: property={pid} {known_keys[key]['what']} "
              f"[key={key}; e.g. {v['what'][:200]}]")
    seen_mech: Counter[str] = Counter()
    for v in real:
        seen_mech[v["mech"]] += 1
        if seen_mech[v["mech"]] > 2:
            continue
        h = case_hash(v["mech"], v["case"])
        path = rpdir / f"{pid}-{h}.json"
        path.write_text(json.dumps(v, indent=1))
        print(f"violation: mech={v['mech']} engine={v['engine']} "
              f"shard={v['shard']}: {v['what'][:600]}")
        print(f"VIOLATION property={pid} replay={path}")
        rc = 1

    if rc == 0 and inconclusive:
        rc = 2
    for w in inconclusive:
        print(f"INCONCLUSIVE property={pid} {w}")

    # ---- evidence ---------------------------------------------------------
    cov = {
        "evaluations": int(evaluations),
        "distinct_nontrivial": n_distinct,
        "rule": getattr(mod, "RULE", ""),
        "samples": samples if samples else ["(no sample recorded)"],
        "exhaustive": bool(exhaustive) and bool(
            getattr(mod, "EXHAUSTIVE_WHOLE", False)),
        "exhaustive_subspaces": exhaustive,
        "monitor_counters": {k: counters[k] for k in sorted(counters)},
        "observed_maxima": maxima, "observed_minima": minima,
        "shards": per_shard, "notes": notes, "shard_observations": extras,
        "known_findings_seen": sorted(known_hit),
        "inconclusive": inconclusive,
        "tree_hash": thash,
        "verdict": ("violated" if rc == 1 else
                    "inconclusive" if rc == 2 else
                    "held on what was observed"),
    }
    ev = {
        "property_id": pid, "tier": tier, "seed": seed,
        "level": "exploration", "coverage": cov,
        "assumptions": getattr(mod, "LEVEL_ASSUMPTIONS", []),
        "wall_s": round(time.time() - t0, 2),
        "violations": len(real),
    }
    evdir = Path(os.environ.get("VERIF_EVIDENCE_DIR", HOME / "evidence"))
    evdir.mkdir(parents=True, exist_ok=True)
    (evdir / f"{pid}.json").write_text(
        json.dumps(ev, indent=1, sort_keys=True))
    print(f"{pid} {tier} seed={seed}: evaluations={evaluations} "
          f"distinct_nontrivial={n_distinct} violations={len(real)} "
          f"known={len(known_hit)} inconclusive={len(inconclusive)} "
          f"wall={ev['wall_s']}s verdict={cov['verdict']}")
    top = sorted(counters.items(), key=lambda kv: -kv[1])[:14]
    print("  monitors: " + ", ".join(f"{k}={v}" for k, v in top))
    return rc


def blame(e: BaseException) -> str | None:
    """'file:function' if the innermost repo/harness frame is in the repo."""
    tb = e.__traceback__
    last = None
    while tb is not None:
        fn = tb.tb_frame.f_code.co_filename
        if fn.startswith(str(REPO) + os.sep):
            last = ("repo", os.path.relpath(fn, REPO) + ":"
                    + tb.tb_frame.f_code.co_name)
        elif fn.startswith(str(HOME) + os.sep):
            last = ("harness", fn)
        tb = tb.tb_next
    if last is not None and last[0] == "repo":
        return last[1]
    return None


_CACHE_LOCK = None


def _lock_numba_cache() -> None:
    """Hold an exclusive lock on this shard's numba cache directory; if some
    other process holds it, use a private throw-away directory instead."""
    global _CACHE_LOCK
    d = os.environ.get("NUMBA_CACHE_DIR")
    if not d or "numba" in sys.modules:
        return
    import fcntl
    try:
        os.makedirs(d, exist_ok=True)
        fh = open(os.path.join(d, ".lock"), "w")
        fcntl.flock(fh, fcntl.LOCK_EX | fcntl.LOCK_NB)
        _CACHE_LOCK = fh
    except OSError:
        import atexit
        import tempfile
        t = tempfile.mkdtemp(prefix="verif-nbc-")
        os.environ["NUMBA_CACHE_DIR"] = t
        atexit.register(shutil.rmtree, t, True)


def shard_main(pid: str, tier: str, spec_file: str, out_file: str) -> int:
    import importlib
    spec = json.loads(Path(spec_file).read_text())
    seed = int(os.environ.get("VERIF_SEED", "1"))
    engine = os.environ.get("VERIF_ENGINE", "jit")
    # third-party monitor library: appended, never shadows the repo's deps
    deps = str(HOME / ".deps")
    if deps not in sys.path:
        sys.path.append(deps)
    import faulthandler
    faulthandler.enable()
    _lock_numba_cache()
    ctx = Ctx(pid, tier, seed, spec["idx"], spec["name"], engine)
    ctx.spec = {k: v for k, v in spec.items() if k != "idx"}
    mod = importlib.import_module(f"checks.{pid}")
    try:
        rc = spec.get("replay_case")
        if isinstance(rc, dict) and str(rc.get("kind", "")).startswith(
                "suite:"):
            # a case recorded by the process-wide contracts while the
            # repository's own tests were the workload
            from vlib.monitors.domain_contracts import replay_case
            replay_case(ctx, rc)
        elif "replay_case" in spec:
            mod.replay(ctx, rc)
        elif spec.get("args", {}).get("mode") == "suite":
            from vlib.suite import run_suite
            a = spec["args"]
            run_suite(ctx, a["tests"], a["domains"],
                      rounds=a.get("rounds", 1), oob=a.get("oob", False))
        else:
            mod.run_shard(ctx, spec.get("args", {}))
    except BaseException as e:  # noqa
        tb = traceback.format_exc()
        sys.stdout.write(tb)
        where = blame(e)
        if where is not None and "replay_case" not in spec:
            # the code under test raised on an input the workload considers
            # valid: an observed violation, replayable by re-running the shard
            ctx.violation(
                f"unexpected-exception:{type(e).__name__}@{where}",
                f"{type(e).__name__}: {e} raised inside the repository at "
                f"{where}\n" + "\n".join(tb.splitlines()[-10:]),
                {"kind": "__shard__", "idx": spec["idx"],
                 "spec": {k: v for k, v in spec.items() if k != "idx"}})
        elif where is not None:
            ctx.violation(
                f"unexpected-exception:{type(e).__name__}@{where}",
                f"{type(e).__name__}: {e} raised inside the repository at "
                f"{where}", spec["replay_case"])
        else:
            ctx.inconclusive_because(
                f"harness/workload exception {type(e).__name__}: {e}\n"
                + "\n".join(tb.splitlines()[-12:]))
    # the distinct-case hashes go to a binary side file (millions of them)
    import numpy as np
    np.save(out_file + ".nt.npy",
            np.fromiter(ctx.nt, dtype=np.uint64, count=len(ctx.nt)))
    Path(out_file).write_text(json.dumps(ctx.result()))
    return 0
