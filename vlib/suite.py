"""Shard helper: the repository's own tests as a monitored workload."""
from __future__ import annotations

import json
import os
import subprocess
import sys
import tempfile


def run_suite(ctx, tests, domains, rounds=1, timeout=2400, extra_env=None,
              oob=False):
    """Run `tests` (paths relative to the repository) `rounds` times under
    the suite plugin; merge counters, forward violations to `ctx`."""
    repo = os.environ.get("VERIF_REPO", "/repo")
    home = os.environ["VERIF_HOME"]
    for r in range(rounds):
        with tempfile.TemporaryDirectory(prefix="verif-suite-") as td:
            out = os.path.join(td, "out.json")
            env = dict(os.environ, VERIF_SUITE_OUT=out,
                       VERIF_SUITE_MON=",".join(domains),
                       PYTHONPATH=os.pathsep.join([repo, home]))
            env.pop("PYTEST_CURRENT_TEST", None)
            if extra_env:
                env.update(extra_env)
            cmd = [sys.executable, "-m", "pytest", "-q",
                   "-p", "no:cacheprovider", "-p",
                   "vlib.monitors.suite_plugin", "--timeout=1200",
                   f"--rootdir={td}", *[os.path.join(repo, t) for t in tests]]
            try:
                p = subprocess.run(cmd, cwd=td, env=env, timeout=timeout,
                                   capture_output=True, text=True)
            except subprocess.TimeoutExpired:
                ctx.inconclusive_because(
                    f"suite run {tests} hit the wall-clock watchdog")
                continue
            ctx.count("suite_runs")
            if not os.path.isfile(out):
                ctx.inconclusive_because(
                    "suite run wrote no monitor report: "
                    + (p.stdout + p.stderr)[-600:])
                continue
            with open(out) as f:
                st = json.load(f)
        for k, v in st["counters"].items():
            if k != "violations_raw":
                ctx.count(k, v)
        for v in st["violations"]:
            ctx.violation(v["mech"], v["what"] + f" [during the repository's "
                          f"own test {v['test']}]", v["case"])
        for e in st["plugin_errors"]:
            ctx.inconclusive_because("suite plugin could not install its "
                                     "monitors: " + e[-500:])
        for e in st["errors"]:
            if oob and "IndexError" in e and "moptipyapps" in e:
                # bounds-checked engine: a kernel indexed outside an array
                # while one of the repository's own tests drove it
                test = e.split(": ", 1)[0][:80]
                ctx.violation("out-of-bounds:suite:" + test,
                              f"IndexError under NUMBA_BOUNDSCHECK=1 while "
                              f"the repository's own test {test} ran: "
                              + e[-700:],
                              ctx.shard_replay_case(test=test))
                continue
            # a failing repository test is not this property's verdict
            ctx.count("suite_tests_failed_or_plugin_errors")
            ctx.note("suite: " + e[-400:])
