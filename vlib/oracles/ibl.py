"""Executable model of the documented improved-bottom-left procedure.

Written from the module documentation of ibl_encoding_1/2 in terms of target
coordinates (where does the item come to rest) over per-bin rectangle lists;
it shares no code with /repo and keeps no state between calls.

Returns (rows, n_bins, stats) where stats counts events of the model.
"""
from __future__ import annotations


def _drop(placed, W, H, w, h, stats):
    """Let one w x h item fall into a bin holding `placed` rectangles.

    Start: right edge at W, bottom at H (outside). Repeat: move down as far
    as possible; if no downward move was possible, move left as far as
    possible (stopping at the left end of a directly supporting rectangle);
    stop when neither is possible. Returns (l, b, r, t).
    """
    left, bot = W - w, H
    downs = lefts = 0
    while True:
        r, t = left + w, bot + h
        # --- down: highest top among x-overlapping rectangles not above us
        rest = 0
        for (pl, pb, pr, pt) in placed:
            if pr > left and pl < r and pb < t:
                rest = max(rest, pt)
        if rest < bot:
            bot = rest
            downs += 1
            continue
        # --- left
        stop = 0
        for (pl, pb, pr, pt) in placed:
            if pl >= r:
                continue            # behind us
            if pr > left:           # overlaps in x: only a direct supporter
                if pt == bot:
                    stop = max(stop, pl - w)
            elif t > pb and bot < pt:   # left of us, overlapping in y
                stop = max(stop, pr)
        if stop < left:
            left = stop
            lefts += 1
            continue
        break
    if downs and lefts:
        stats["down_and_left"] = stats.get("down_and_left", 0) + 1
    stats["max_moves"] = max(stats.get("max_moves", 0), downs + lefts)
    return left, bot, left + w, bot + h


def decode(W: int, H: int, items, perm, first_fit: bool):
    """Model of encoding 1 (next fit) / encoding 2 (first fit over all bins)."""
    bins: list[list[tuple[int, int, int, int]]] = [[]]
    rows = []
    stats: dict[str, int] = {}
    for code in perm:
        iid = abs(code)
        w, h = items[iid - 1][0], items[iid - 1][1]
        if code < 0:
            w, h = h, w
        if w > W or h > H:
            w, h = h, w
            stats["forced_rotation"] = stats.get("forced_rotation", 0) + 1
        cand = range(len(bins)) if first_fit else [len(bins) - 1]
        done = False
        for bi in cand:
            le, bo, ri, to = _drop(bins[bi], W, H, w, h, stats)
            if ri <= W and to <= H:
                bins[bi].append((le, bo, ri, to))
                rows.append([iid, bi + 1, le, bo, ri, to])
                done = True
                if first_fit and bi < len(bins) - 1:
                    stats["earlier_bin_used"] = stats.get(
                        "earlier_bin_used", 0) + 1
                break
        if not done:
            bins.append([(0, 0, w, h)])
            rows.append([iid, len(bins), 0, 0, w, h])
            stats["new_bin"] = stats.get("new_bin", 0) + 1
    return rows, len(bins), stats


def selftest() -> None:
    items = [[10, 20, 5], [5, 5, 5]]
    xx = [1, -1, 2, -2, 1, -2, -2, -1, -1, 2]
    want = [[1, 1, 0, 0, 10, 20], [1, 1, 10, 0, 30, 10],
            [2, 1, 10, 10, 15, 15], [2, 1, 15, 10, 20, 15],
            [1, 1, 20, 10, 30, 30], [2, 1, 10, 15, 15, 20],
            [2, 1, 15, 15, 20, 20], [1, 1, 0, 20, 20, 30],
            [1, 2, 0, 0, 20, 10], [2, 2, 20, 0, 25, 5]]
    for ff in (False, True):
        rows, k, _ = decode(30, 30, items, xx, ff)
        assert rows == want and k == 2, rows
    # documented __move_left example: item stops at the supporter's left end
    st = {}
    got = _drop([(0, 0, 10, 2), (10, 0, 20, 5)], 20, 50, 2, 2, st)
    assert got[1] in (2, 5)
