"""Independent oracles for 2D bin packing (no code shared with /repo).

All functions work on plain Python ints.

An *instance description* is a dict
    {"name": str, "W": int, "H": int, "items": [[w, h, reps], ...]}
A *packing description* is (rows, n_bins) with rows = [[id, bin, l, b, r, t]].
"""
from __future__ import annotations

from collections import Counter
from typing import Any


def infeasibility(inst: dict, rows: list[list[int]], n_bins: Any) -> str | None:
    """Return None when the packing is feasible, else the first reason found.

    The predicate is the property text: right number of rows, ids valid and
    with the prescribed multiplicity, rectangle has the item's dimensions in
    one of two orientations, inside the bin, no overlap within a bin, bins
    numbered 1..k without gaps, n_bins == k (and an int).
    """
    W, H = inst["W"], inst["H"]
    items = inst["items"]
    n_items = sum(r[2] for r in items)
    if len(rows) != n_items:
        return f"rows={len(rows)} != n_items={n_items}"
    cnt: Counter[int] = Counter()
    per_bin: dict[int, list[tuple[int, int, int, int, int]]] = {}
    for idx, row in enumerate(rows):
        if len(row) != 6:
            return f"row {idx} has {len(row)} fields"
        iid, b, le, bo, ri, to = (int(v) for v in row)
        if not 1 <= iid <= len(items):
            return f"row {idx}: id {iid} invalid"
        cnt[iid] += 1
        w, h, _ = items[iid - 1]
        rw, rh = ri - le, to - bo
        if rw <= 0 or rh <= 0:
            return f"row {idx}: empty or negative rectangle"
        if not ((rw == w and rh == h) or (rw == h and rh == w)):
            return (f"row {idx}: rectangle {rw}x{rh} is not item {iid} "
                    f"({w}x{h}) in any orientation")
        if le < 0 or bo < 0 or ri > W or to > H:
            return f"row {idx}: outside the bin"
        if b < 1:
            return f"row {idx}: bin id {b} < 1"
        per_bin.setdefault(b, []).append((le, bo, ri, to, idx))
    for iid, (_, _, reps) in enumerate(items, 1):
        if cnt[iid] != reps:
            return f"item {iid} occurs {cnt[iid]} times instead of {reps}"
    k = len(per_bin)
    if sorted(per_bin) != list(range(1, k + 1)):
        return f"bins not contiguous from 1: {sorted(per_bin)[:10]}"
    for b, rects in per_bin.items():
        ov = _first_overlap(rects)
        if ov is not None:
            return f"bin {b}: rows {ov[0]} and {ov[1]} overlap"
    if type(n_bins) is not int:  # noqa: E721  (numpy ints are not int)
        return f"n_bins has type {type(n_bins).__name__}"
    if n_bins != k:
        return f"n_bins={n_bins} but {k} bins are used"
    return None


def _first_overlap(rects):
    """Sweep: sort by left edge; compare with active rectangles."""
    rs = sorted(rects)
    active: list[tuple[int, int, int, int, int]] = []
    for r in rs:
        le, bo, ri, to, idx = r
        active = [a for a in active if a[2] > le]
        for a in active:
            # a.left <= le < a.right  -> x overlap; test y overlap
            if a[1] < to and a[3] > bo:
                return (a[4], idx)
        active.append(r)
    return None


def bins_of(rows) -> dict[int, list[list[int]]]:
    d: dict[int, list[list[int]]] = {}
    for r in rows:
        d.setdefault(int(r[1]), []).append([int(v) for v in r])
    return d


def skyline_area(rects: list[list[int]]) -> int:
    """Area under the skyline: for every x, the highest top over x.

    rects: rows [id, bin, l, b, r, t] of one bin. Coordinate compression.
    """
    xs = sorted({r[2] for r in rects} | {r[4] for r in rects})
    total = 0
    for x0, x1 in zip(xs, xs[1:]):
        top = 0
        for r in rects:
            if r[2] <= x0 and r[4] >= x1:
                top = max(top, r[5])
        total += (x1 - x0) * top
    return total


def objective_values(inst: dict, rows) -> dict[str, int]:
    """The seven documented objective values of a feasible packing."""
    W, H = inst["W"], inst["H"]
    A = W * H
    n = sum(r[2] for r in inst["items"])
    per = bins_of(rows)
    k = len(per)
    last = per[k]

    def area(rs):
        return sum((r[4] - r[2]) * (r[5] - r[3]) for r in rs)

    return {
        "binCount": k,
        "binCountAndLastEmpty": (k - 1) * n + len(last),
        "binCountAndEmpty": (k - 1) * n + min(len(v) for v in per.values()),
        "binCountAndLastSmall": (k - 1) * A + area(last),
        "binCountAndSmall": (k - 1) * A + min(area(v) for v in per.values()),
        "binCountAndLastSkyline": (k - 1) * A + skyline_area(last),
        "binCountAndLowestSkyline":
            (k - 1) * A + min(skyline_area(v) for v in per.values()),
    }


# --------------------------------------------------------------------------
# exhaustive packer for tiny instances (used by C03, C17)
def min_bins_exhaustive(W: int, H: int, rects: list[tuple[int, int]],
                        limit_nodes: int = 2_000_000) -> int | None:
    """Exact minimum number of bins (with 90 degree rotation).

    Search over "normal" placements: each item is placed with its bottom-left
    corner at a point (x, y) where x is 0 or the right edge of a placed item
    and y is 0 or the top of a placed item - every feasible packing can be
    normalised to such a one by pushing items left/down, so the search is
    complete. Returns None when the node limit is hit.
    """
    rects = sorted(rects, key=lambda r: -(r[0] * r[1]))
    n = len(rects)
    area = sum(w * h for w, h in rects)
    lb = max(1, -(-area // (W * H)))
    nodes = [0]

    def fits(placed, x, y, w, h):
        if x + w > W or y + h > H:
            return False
        for (a, b, c, d) in placed:
            if a < x + w and c > x and b < y + h and d > y:
                return False
        return True

    def rec(i: int, bins: list[list[tuple[int, int, int, int]]], k: int) -> bool:
        nodes[0] += 1
        if nodes[0] > limit_nodes:
            raise TimeoutError
        if i == n:
            return True
        w0, h0 = rects[i]
        orients = [(w0, h0)] if w0 == h0 else [(w0, h0), (h0, w0)]
        tried_empty = False
        for bi in range(len(bins)):
            placed = bins[bi]
            if not placed:
                if tried_empty:
                    continue
                tried_empty = True
            xs = {0} | {p[2] for p in placed}
            ys = {0} | {p[3] for p in placed}
            for (w, h) in orients:
                if w > W or h > H:
                    continue
                for x in sorted(xs):
                    for y in sorted(ys):
                        if fits(placed, x, y, w, h):
                            placed.append((x, y, x + w, y + h))
                            if rec(i + 1, bins, k):
                                return True
                            placed.pop()
        return False

    try:
        for k in range(lb, n + 1):
            if rec(0, [[] for _ in range(k)], k):
                return k
    except TimeoutError:
        return None
    return n


def selftest() -> None:
    """Oracle vs. the Liu-Teng example documented in ibl_encoding_1."""
    inst = {"W": 30, "H": 30, "items": [[10, 20, 5], [5, 5, 5]]}
    rows = [[1, 1, 0, 0, 10, 20], [1, 1, 10, 0, 30, 10],
            [2, 1, 10, 10, 15, 15], [2, 1, 15, 10, 20, 15],
            [1, 1, 20, 10, 30, 30], [2, 1, 10, 15, 15, 20],
            [2, 1, 15, 15, 20, 20], [1, 1, 0, 20, 20, 30],
            [1, 2, 0, 0, 20, 10], [2, 2, 20, 0, 25, 5]]
    assert infeasibility(inst, rows, 2) is None
    assert infeasibility(inst, rows, 3) is not None
    bad = [list(r) for r in rows]
    bad[2][2] -= 1
    bad[2][4] -= 1
    assert "overlap" in infeasibility(inst, bad, 2)
    v = objective_values(inst, rows)
    assert v["binCount"] == 2 and v["binCountAndLastEmpty"] == 12
    assert v["binCountAndLastSmall"] == 900 + 225
    # skyline of the last bin: 20 wide x 10 high + 5 wide x 5 high
    assert v["binCountAndLastSkyline"] == 900 + 225
    assert min_bins_exhaustive(2, 2, [(1, 1)] * 5) == 2
    assert min_bins_exhaustive(3, 2, [(2, 3), (1, 1)]) == 2
