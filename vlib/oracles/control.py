"""Reference evaluation of controller blueprints and system equations.

Everything here is plain numpy/math written from the documented formulas.
"""
from __future__ import annotations

import itertools
import math

import numpy as np


def monomials(m: int, d: int) -> list[tuple[int, ...]]:
    """Exponent tuples of all monomials of total degree 1..d in m variables."""
    out = []
    for deg in range(1, d + 1):
        for e in itertools.product(range(deg + 1), repeat=m):
            if sum(e) == deg:
                out.append(e)
    return out


def mono_value(e, state) -> float:
    v = 1.0
    for k, s in zip(e, state):
        v *= float(s) ** k
    return v


def ann_eval(state_dims: int, control_dims: int, layers: list[int],
             state, params) -> list[float]:
    """Layer-by-layer evaluation with the documented parameter order.

    Hidden neuron: arctan(bias + sum_j w_j * in_j) with parameters in the
    order bias, w_0, w_1, ... (inputs in the previous layer's neuron order);
    output i: m_i * arctan(b_i + sum_j w_j * in_j).
    """
    p = 0
    cur = [float(s) for s in state]
    for width in layers:
        nxt = []
        for _ in range(width):
            z = float(params[p])
            p += 1
            for v in cur:
                z += float(params[p]) * v
                p += 1
            nxt.append(math.atan(z))
        cur = nxt
    out = []
    for _ in range(control_dims):
        mul = float(params[p])
        p += 1
        z = float(params[p])
        p += 1
        for v in cur:
            z += float(params[p]) * v
            p += 1
        out.append(mul * math.atan(z))
    assert p == ann_param_count(state_dims, control_dims, layers)
    return out


def ann_param_count(state_dims, control_dims, layers) -> int:
    n = 0
    prev = state_dims
    for w in layers:
        n += w * (1 + prev)
        prev = w
    return n + control_dims * (2 + prev)


def peaks_eval(k: int, state, params) -> float:
    d = len(state)
    tot = 0.0
    for i in range(k):
        base = i * (2 + d)
        a = float(params[base + 1])
        for j in range(d):
            a += float(params[base + 2 + j]) * float(state[j])
        tot += float(params[base]) * math.exp(-(a * a))
    return tot


def partially_linear_eval(k: int, state, params):
    """(value, margin): law of the closest anchor; margin = gap between the
    two smallest squared distances (small margin = near tie, skip)."""
    d = len(state)
    dist = []
    for i in range(k):
        base = i * 2 * d
        dist.append(sum((float(state[j]) - float(params[base + j])) ** 2
                        for j in range(d)))
    order = sorted(range(k), key=lambda i: (dist[i], i))
    best = order[0]
    base = best * 2 * d + d
    val = sum(float(state[j]) * float(params[base + j]) for j in range(d))
    margin = dist[order[1]] - dist[order[0]]
    scale = max(1.0, max(dist))
    return val, margin / scale


def cornejo_maceda(state, params) -> float:
    z = math.tanh(state[0] - state[1])
    for b in params[:3]:
        z = math.tanh(1.0 if b == 0 else z / b)
    return z


def table_3_1_ga(state, params) -> float:
    return state[0] * params[0] + state[1] * params[1]


def table_3_1_lgpc(state, params) -> float:
    a = state[0] * params[0] + params[1]
    return params[2] * math.sin((params[3] / a) if a != 0.0 else 1.0)


def stuart_landau(s, c) -> list[float]:
    sigma = 0.1 - s[0] ** 2 - s[1] ** 2
    return [sigma * s[0] - s[1], sigma * s[1] + s[0] + c[0]]


def lorenz(s, c) -> list[float]:
    x, y, z = s
    return [10.0 * (y - x), x * (28.0 - z) - y + c[0],
            x * y - (8.0 / 3.0) * z]


def three_oscillators(a, c) -> list[float]:
    a1, a2, a3, a4, a5, a6 = a
    r1, r2, r3 = a1 * a1 + a2 * a2, a3 * a3 + a4 * a4, a5 * a5 + a6 * a6
    s1, s2, s3 = -r1 + r2 - r3, 0.1 - r2, -0.1
    b = c[0]
    pi2 = math.pi ** 2
    return [s1 * a1 - a2, s1 * a2 + a1, s2 * a3 - math.pi * a4,
            s2 * a4 + math.pi * a3 + b, s3 * a5 - pi2 * a6,
            s3 * a6 + pi2 * a5 + b]


def close(a: float, b: float, rel: float = 1e-11, abs_: float = 1e-13):
    if not (math.isfinite(a) and math.isfinite(b)):
        return (a == b) or (math.isnan(a) and math.isnan(b))
    return abs(a - b) <= abs_ + rel * max(abs(a), abs(b))


def selftest() -> None:
    assert len(monomials(2, 1)) == 2 and len(monomials(2, 2)) == 5
    assert len(monomials(2, 3)) == 9 and len(monomials(3, 3)) == 19
    assert ann_param_count(2, 1, []) == 4
    assert ann_param_count(3, 1, [3, 2]) == 3 * 4 + 2 * 4 + 4
    v = ann_eval(2, 1, [], np.array([1.0, 2.0]), [2.0, 0.5, 1.0, -1.0])
    assert close(v[0], 2.0 * math.atan(0.5 + 1.0 - 2.0))
