"""Independent oracles for the Traveling Tournament Problem.

A plan is a list of days, each a list of n ints in -n..n (0 = bye,
+k = home game against team k, -k = away game at team k; teams 1-based).
`cfg` = (rounds, hmin, hmax, amin, amax, smin, smax).
"""
from __future__ import annotations

from itertools import groupby


def is_consistent(plan) -> bool:
    """No byes, opponents and roles mutually consistent, no self-pairing."""
    n = len(plan[0])
    for day in plan:
        for a, v in enumerate(day):
            if v == 0 or abs(v) > n:
                return False
            b = abs(v) - 1
            if b == a:
                return False
            if v > 0 and day[b] != -(a + 1):
                return False
            if v < 0 and day[b] != (a + 1):
                return False
    return True


def _runs(col):
    """Maximal runs of home (True) / away (False) games of one team."""
    return [(k, len(list(g))) for k, g in groupby(v > 0 for v in col)]


def rule_counts(plan, cfg) -> dict[str, int]:
    """Documented per-rule error counts of a mutually consistent plan."""
    rounds, hmin, hmax, amin, amax, smin, smax = cfg
    n = len(plan[0])
    D = len(plan)
    out = {"home_short": 0, "home_long": 0, "away_short": 0, "away_long": 0,
           "sep_short": 0, "sep_long": 0, "balance": 0, "count": 0}
    for t in range(n):
        for home, ln in _runs([plan[d][t] for d in range(D)]):
            if home:
                out["home_short"] += max(0, hmin - ln)
                out["home_long"] += max(0, ln - hmax)
            else:
                out["away_short"] += max(0, amin - ln)
                out["away_long"] += max(0, ln - amax)
    meet: dict[tuple[int, int], list[int]] = {}
    home: dict[tuple[int, int], int] = {}
    for d in range(D):
        for a in range(n):
            v = plan[d][a]
            if v > 0:
                b = v - 1
                meet.setdefault((min(a, b), max(a, b)), []).append(d)
                home[(a, b)] = home.get((a, b), 0) + 1
    for days in meet.values():
        for d0, d1 in zip(days, days[1:]):
            gap = d1 - d0 - 1
            out["sep_short"] += max(0, smin - gap)
            out["sep_long"] += max(0, gap - smax)
    want = D // (n - 1)
    for a in range(n):
        for b in range(a):
            ab, ba = home.get((a, b), 0), home.get((b, a), 0)
            out["count"] += abs(ab + ba - want)
            out["balance"] += max(0, abs(ab - ba) - 1)
    return out


def error_count_with_byes(plan, cfg) -> int | None:
    """Documented error count of a plan whose non-bye cells are mutually
    consistent (what the game encoding produces). None if inconsistent."""
    rounds, hmin, hmax, amin, amax, smin, smax = cfg
    n = len(plan[0])
    D = len(plan)
    for day in plan:
        for a, v in enumerate(day):
            if v == 0:
                continue
            b = abs(v) - 1
            if abs(v) > n or b == a:
                return None
            if (v > 0 and day[b] != -(a + 1)) or (v < 0 and day[b] != a + 1):
                return None
    total = 0
    for t in range(n):
        col = [plan[d][t] for d in range(D)]
        for sign, grp in groupby(col, key=lambda v: (int(v) > 0) - (int(v) < 0)):
            ln = len(list(grp))
            if sign == 0:
                total += ln                      # one error per bye
            elif sign > 0:
                total += max(0, hmin - ln) + max(0, ln - hmax)
            else:
                total += max(0, amin - ln) + max(0, ln - amax)
    meet: dict[tuple[int, int], list[int]] = {}
    home: dict[tuple[int, int], int] = {}
    for d in range(D):
        for a in range(n):
            v = plan[d][a]
            if v > 0:
                b = v - 1
                meet.setdefault((min(a, b), max(a, b)), []).append(d)
                home[(a, b)] = home.get((a, b), 0) + 1
    for days in meet.values():
        for d0, d1 in zip(days, days[1:]):
            gap = d1 - d0 - 1
            total += max(0, smin - gap) + max(0, gap - smax)
    want = D // (n - 1)
    for a in range(n):
        for b in range(a):
            ab, ba = home.get((a, b), 0), home.get((b, a), 0)
            total += abs(ab + ba - want) + max(0, abs(ab - ba) - 1)
    return total


def infeasibility(plan, cfg) -> str | None:
    """None iff the plan is a feasible round-robin schedule (property text)."""
    rounds, hmin, hmax, amin, amax, smin, smax = cfg
    n = len(plan[0])
    D = len(plan)
    for d, day in enumerate(plan):
        for a, v in enumerate(day):
            if v == 0:
                return f"bye: team {a + 1} does not play on day {d}"
    if not is_consistent(plan):
        return "inconsistent: opponents/roles do not match (or self-pairing)"
    c = rule_counts(plan, cfg)
    for k, v in c.items():
        if v:
            return f"rule {k} violated ({v})"
    return None


def sound_upper_bound(n: int, D: int, cfg) -> int:
    """A sound bound on the error count of ANY plan over -n..n (Appendix B)."""
    rounds, hmin, hmax, amin, amax, smin, smax = cfg
    S = max(1, hmin - 1, amin - 1)
    P = max(0, smin, D - 2 - smax)
    close = max(hmin, amin) - 1
    g = D // (n - 1)
    return n * (D + (D - 1) * (S + P) + close) + 2 * n * D \
        + g * n * (n - 1) // 2


def plan_length(dist, plan) -> int:
    """Total travel of all teams + (2*max+1) per bye (tournament model)."""
    n = len(plan[0])
    pen = 2 * max(max(r) for r in dist) + 1
    total = 0
    for t in range(n):
        loc = t
        for day in plan:
            v = day[t]
            if v == 0:
                total += pen
                continue
            nxt = t if v > 0 else (-v - 1)
            if nxt != loc:
                total += dist[loc][nxt]
            loc = nxt
        if loc != t:
            total += dist[loc][t]
    return total


# -- all day-wise consistent configurations of one day for n teams ----------
def day_configs(n: int) -> list[list[int]]:
    """All ways to pair n teams on one day incl. home/away orientation."""
    out: list[list[int]] = []

    def rec(day, free):
        if not free:
            out.append(list(day))
            return
        a = free[0]
        for b in free[1:]:
            rest = [t for t in free if t not in (a, b)]
            for ha in (1, -1):
                day[a] = ha * (b + 1)
                day[b] = -ha * (a + 1)
                rec(day, rest)
        day[a] = 0

    rec([0] * n, list(range(n)))
    return out


def feasible_set_dfs(n: int, cfg) -> set[tuple[int, ...]]:
    """All feasible plans as tuples of day-config indices (pruned DFS)."""
    rounds, hmin, hmax, amin, amax, smin, smax = cfg
    cfgs = day_configs(n)
    D = (n - 1) * rounds
    res: set[tuple[int, ...]] = set()

    def ok_prefix(plan, final) -> bool:
        d = len(plan)
        for t in range(n):
            runs = _runs([plan[i][t] for i in range(d)])
            for j, (home, ln) in enumerate(runs):
                last = j == len(runs) - 1
                mx = hmax if home else amax
                mn = hmin if home else amin
                if ln > mx:
                    return False
                if ln < mn and (not last or final):
                    return False
        meet: dict[tuple[int, int], list[int]] = {}
        home: dict[tuple[int, int], int] = {}
        for i in range(d):
            for a in range(n):
                v = plan[i][a]
                if v > 0:
                    b = v - 1
                    meet.setdefault((min(a, b), max(a, b)), []).append(i)
                    home[(a, b)] = home.get((a, b), 0) + 1
        for (a, b), days in meet.items():
            if len(days) > rounds:
                return False
            for d0, d1 in zip(days, days[1:]):
                if not smin <= d1 - d0 - 1 <= smax:
                    return False
        if final:
            for a in range(n):
                for b in range(a):
                    ab, ba = home.get((a, b), 0), home.get((b, a), 0)
                    if ab + ba != rounds or abs(ab - ba) > 1:
                        return False
        return True

    def rec(idx, plan):
        if len(plan) == D:
            if ok_prefix(plan, True):
                res.add(tuple(idx))
            return
        for ci, c in enumerate(cfgs):
            plan.append(c)
            idx.append(ci)
            if len(plan) == D or ok_prefix(plan, False):
                rec(idx, plan)
            plan.pop()
            idx.pop()

    rec([], [])
    return res


def circle_method(n: int, rounds: int, mirrored: bool = True):
    """A consistent round robin by the circle method (teams 1..n, n even)."""
    teams = list(range(n))
    single = []
    for r in range(n - 1):
        day = [0] * n
        for i in range(n // 2):
            a, b = teams[i], teams[n - 1 - i]
            if (r + i) % 2 == 0:
                a, b = b, a
            day[a] = b + 1
            day[b] = -(a + 1)
        single.append(day)
        teams = [teams[0]] + [teams[-1]] + teams[1:-1]
    plan = []
    for rd in range(rounds):
        for day in single:
            if rd % 2 == 1 and mirrored:
                plan.append([-v for v in day])
            else:
                plan.append(list(day))
    return plan


def selftest() -> None:
    # the worked example of game_plan_length's documentation:
    # 3 teams is not allowed by Instance, but the model is generic.
    dist = [[0, 1, 2], [1, 0, 3], [2, 3, 0]]
    plan = [[2, -1, 0]]
    # team 1 home vs 2: no travel; team 2 away at 1: 1 + back 1; team 3 bye
    assert plan_length(dist, plan) == 2 + 7
    cm = circle_method(4, 2)
    assert is_consistent(cm)
    c = rule_counts(cm, (2, 1, 3, 1, 3, 0, 6))
    assert c["count"] == 0 and c["balance"] == 0
    assert len(day_configs(4)) == 12
    assert len(day_configs(2)) == 2
