"""Copies of public component objects: `copy.copy`, `copy.deepcopy` and a
pickle round trip. A copy of an objective / encoder / space must behave like
the object it was copied from (and must not disturb it). An object that
refuses a kind of copying (TypeError, PicklingError ...) is simply not
copied that way - that is not a verdict."""
from __future__ import annotations

import copy
import pickle


def clones(ctx, obj):
    """-> list of (how, clone)."""
    out = []
    for how, fn in (("copy", copy.copy), ("deepcopy", copy.deepcopy),
                    ("pickle", lambda o: pickle.loads(pickle.dumps(o)))):
        try:
            c = fn(obj)
        except Exception:  # noqa: BLE001
            ctx.count(f"not_clonable[{how}:{type(obj).__name__}]")
            continue
        ctx.count(f"clones[{how}]")
        out.append((how, c))
    return out


def judge_clones(ctx, obj, call, want, what: str, case, same=None) -> None:
    """Every clone of `obj` must give `want` for `call(clone)`; a clone that
    refuses to work is counted, an IndexError is passed on (bounds-checked
    engines), anything else that differs is a violation."""
    for how, c in clones(ctx, obj):
        try:
            got = call(c)
        except IndexError:
            raise
        except Exception:  # noqa: BLE001
            ctx.count(f"copied_object_unusable[{how}:{type(obj).__name__}]")
            continue
        ctx.count("calls_on_copied_objects")
        ok = same(got, want) if same is not None else got == want
        if not ok:
            ctx.violation(
                f"copied-{what}-differs",
                f"{how} of a {type(obj).__name__}: {got!r}, the object it "
                f"was copied from (and the oracle): {want!r}"[:400], case)
            return
