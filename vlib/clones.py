"""Copies of public component objects: `copy.copy`, `copy.deepcopy` and a
pickle round trip. A copy of an objective / encoder / space must behave like
the object it was copied from (and must not disturb it). An object that
refuses a kind of copying (TypeError, PicklingError ...) is simply not
copied that way - that is not a verdict."""
from __future__ import annotations

import copy
import pickle


def clones(ctx, obj):
    """-> list of (how, clone)."""
    out = []
    for how, fn in (("copy", copy.copy), ("deepcopy", copy.deepcopy),
                    ("pickle", lambda o: pickle.loads(pickle.dumps(o)))):
        try:
            c = fn(obj)
        except Exception:  # noqa: BLE001
            ctx.count(f"not_clonable[{how}:{type(obj).__name__}]")
            continue
        ctx.count(f"clones[{how}]")
        out.append((how, c))
    return out
