"""Thread stress: the same computations, each thread with its OWN component
objects, sharing only immutable data (instances) and module-level functions,
all at the same time. Results must equal the single-thread references.

`jobs_for(tid)` returns a list of zero-argument callables for one thread
(built inside that thread: fresh objectives / encoders / spaces);
`reference` is the list of results the same jobs give in one thread."""
from __future__ import annotations

import sys
import threading


def stress(ctx, what: str, jobs_for, reference, same, n_threads: int = 6,
           loops: int = 20, case=None) -> bool:
    bad: list = []
    old = sys.getswitchinterval()
    sys.setswitchinterval(1e-5)

    def work(tid):
        try:
            jobs = jobs_for(tid)
            for it in range(loops):
                for k in range(len(jobs)):
                    kk = (k + tid + it) % len(jobs)
                    got = jobs[kk]()
                    if not same(got, reference[kk]):
                        bad.append((tid, kk, repr(got)[:120],
                                    repr(reference[kk])[:120]))
                        return
        except BaseException as e:  # noqa: BLE001
            bad.append((tid, -1, f"{type(e).__name__}: {e}"[:200], ""))
    try:
        ths = [threading.Thread(target=work, args=(t,))
               for t in range(n_threads)]
        for t in ths:
            t.start()
        for t in ths:
            t.join()
    finally:
        sys.setswitchinterval(old)
    n = n_threads * loops * max(1, len(reference))
    ctx.case(n)
    ctx.count(f"concurrent_{what}", n)
    if bad:
        tid, kk, got, want = bad[0]
        ctx.violation(
            f"{what}-differs-under-concurrent-use",
            f"thread {tid}, job {kk}: {got} while {n_threads - 1} other "
            f"threads do the same kind of work with their own objects; alone "
            f"it gives {want}",
            case if case is not None else ctx.shard_replay_case(what=what))
        return False
    return True
